"""C28: secure group operations (mpyc/secgroups.py) give exactly the plain group results (mpyc/fingroups.py).

A case = party configuration (m, t, PRSS on/off) x one group (symmetric group, quadratic residues, Schnorr group,
built-in elliptic curve in an oblivious coordinate system, class group; small explicit parameters carry the
bulk) x a short list of independent operation records evaluated in ONE run of the in-process m-party simulator.
Group elements are data (identity, generator^k, permutations, squares, encode() outputs, reduced forms, and
products / inverses / powers of those); secure operands are genuine degree-t sharings dealt by a generated sender
(`mpc.input(secgrp(a))`), conversions `secgrp(a)` / `secgrp(a.value)`, results of earlier records, or stay public.
For every record every party's opened result must be an element of the plain group type and equal the result
of the same expression evaluated with mpyc.fingroups on the plain elements (fingroups itself is under C27).

Records (a, b operands; x exponent):
  out a | op a b (@ + *) | op2 a (same object) | inv a (~ inverse() - 1/) | sub a b (- /) | eq a b | ne a b
  ifelse c a b | rep a x (repeat(), ^, ** / *; public int, secure field element, secure integer exponent;
  public or secure base) | reppub [a..] [x..] (repeat_public: public bases, secure exponents, public output)
"""
import functools
import json
import random
import traceback
from hypothesis import strategies as st

from vlib.boot import boot
boot(numpy=False)
from vlib import sim as simmod, refmath as R, refgroups as RG  # noqa: E402
from vlib.runner import Outcome  # noqa: E402
import mpyc.fingroups as fg  # noqa: E402

ID = 'C28'
LEVEL = 'exploration'
RULE = ('generated (m<=7, t, PRSS on/off) x group (Sym(1..7); QR mod primes 3..2^64; Schnorr groups with p up to 64 bits; '
        'Ed25519/Ed448 x affine/projective/extended and secp256k1/BN256/BN256_twist projective; class groups with '
        '|D| from 3 to 28 bits; kummer1271 on the domain of its Costello-Lauter formulas) x 1..8 records (out, @ in all '
        'notations with a public operand on either side, a@a on one object, inverse in all notations, difference/quotient, '
        '== and != incl. equal elements in different representations, if_else with secret / constant / secure-integer '
        'conditions, repeat with public int, secure prime-field and secure-integer exponents on public and secure bases '
        'in all notations, repeat_public incl. multi-exponentiation; operands dealt by generated senders, converted from '
        'plain elements or values, public, or results of earlier records) run in the m-party simulator, plus a '
        'deterministic matrix (enumerate_cases): 21 group types x (m=1 | m=3,t=1; thorough: 34 types x 6 configurations) '
        'with one record of every kind; oracle = the same expression on the plain elements with mpyc.fingroups, compared '
        'at every party after output (type of the output, membership of the element, canonical value); thorough adds '
        'full-size secret-base / secret-exponent runs on 255/256-bit curves; non-trivial = t>=1 and a record with a '
        'secret operand dealt by a party; distinct by case hash')
ASSUMPTIONS = ['oracle = mpyc.fingroups on plain elements (verified separately by C27)',
               'public exponents are Python ints (a public finite-field element as exponent is accepted by an isinstance '
               'test in repeat() but the docstring only promises integral numbers; it raises for every group: not generated)',
               'repeat_public with several bases (multi-exponentiation) only on abelian groups: the protocol multiplies the '
               'parties\' partial products, which is a^x @ b^y only if the group commutes (source comment: prime order group)',
               'list arguments only for repeat_public (the docstring of repeat() mentions lists, but repeat() itself asserts on '
               'them for every group: not generated)',
               'public base with a secure FIELD exponent: the field characteristic p is a multiple of the order of the base '
               '(base^p = identity is re-checked on the plain side); secure exponents of a secure base range over '
               '[0, p) of a prime field with p > m or t = 0 (to_bits on a lifted field is the known finding F04a of C04) '
               'resp. over the full range of SecInt(l)',
               'elliptic curves only in the coordinate systems fingroups marks oblivious; of the hyperelliptic curves only '
               'kummer1271 (Costello-Lauter coordinates; the Mumford-coordinate secure type needs NumPy), and only on the '
               'documented domain of those formulas: secure operands of full degree (never the identity), a != +-b for '
               'a @ b, results != identity, no secure exponents on secure bases, public bases only for m = 1 or t >= 1; '
               'decode() is not part of the statement',
               'if_else conditions are 0 or 1, of the group\'s sectype or a secure integer type (documented precondition)',
               'Sym(0) is generated only as the single-record class of F28c; QR/Schnorr/curve scalar fields and share '
               'fields are prime fields (non-prime small fields with m >= order are refused by mpyc)']
CASE_TIMEOUT = 900

F2 = 'F2'
F28A = 'F28a'
F28B = 'F28b'
F28C = 'F28c'
F28D = 'F28d'
F28E = 'F28e'

SAFE = [5, 7, 11, 23, 47, 59, 83, 107, 167, 179, 227, 263, 347, 359, 383, 467, 479, 503, 563, 587, 719, 839, 863, 887,
        983, 1019, 1187, 1283, 1307, 1319, 2039, 2063, 2879, 2999]
SAFE_BIG = [65267, 1048343, 4294967087, 281474976705359, 18446744073709550147]
QR_OTHER = [3, 13, 17, 29, 31, 37, 41, 61, 97, 101, 127, 257, 65537]          # (p-1)/2 not prime (3: trivial group)
SG_PQ = [[7, 3], [11, 5], [23, 11], [29, 7], [31, 5], [43, 7], [67, 11], [331, 11], [521, 13], [3637, 101], [35141, 251],
         [524681, 1009], [2**31 - 1, 331], [2149481927, 65521], [9223372101279285217, 2147483647]]
EC_TYPES = [['Ed25519', 'affine'], ['Ed25519', 'projective'], ['Ed25519', 'extended'], ['Ed448', 'affine'],
            ['Ed448', 'projective'], ['Ed448', 'extended'], ['secp256k1', 'projective'], ['BN256', 'projective'],
            ['BN256_twist', 'projective']]
# class groups: discriminant -> class number (re-checked against the enumeration of reduced forms at import of a case)
CL_D = [-3, -7, -11, -23, -31, -47, -59, -71, -79, -103, -127, -167, -191, -199, -227, -239, -311, -383, -479, -647, -1123,
        -1447]


def budget(tier):
    return dict(shards=16, examples=40 if tier == 'quick' else 280)


# ------------------------------------------------------------------------------------------- plain side
def _quiet(f):
    """The gmpy2 stubs draw Miller-Rabin bases from `random`: keep the global generator untouched (strategies!)."""
    @functools.wraps(f)
    def g(*args):
        state = random.getstate()
        random.seed(271828)
        try:
            return f(*args)
        finally:
            random.setstate(state)
    return g


@functools.lru_cache(maxsize=None)
@_quiet
def _cl_big():
    return [int(fg.ClassGroup(l=28).discriminant)]


def _mkgroup(spec):
    return _mkgroup_(json.dumps(spec, sort_keys=True))


@functools.lru_cache(maxsize=None)
@_quiet
def _mkgroup_(key):
    spec = json.loads(key)
    fam = spec['fam']
    if fam == 'sym':
        return fg.SymmetricGroup(spec['n'])
    if fam == 'qr':
        return fg.QuadraticResidues(p=spec['p'])
    if fam == 'sg':
        return fg.SchnorrGroup(p=spec['p'], q=spec['q'])
    if fam == 'ec':
        return fg.EllipticCurve(spec['curve'], spec['coord'])
    if fam == 'cl':
        return fg.ClassGroup(Delta=spec['D'])
    if fam == 'hc':
        return fg.HyperellipticCurve(spec['curve'])
    raise ValueError(fam)


def _plain(G, spec, d):
    """Plain group element from its descriptor."""
    k = d[0]
    if k == 'id':
        return G.identity
    if k == 'gen':
        return G.generator ^ d[1]
    if k == 'perm':
        return G(tuple(d[1]))
    if k == 'sq':
        return G(d[1] * d[1] % spec['p'])
    if k == 'sgx':
        return G(pow(d[1], (spec['p'] - 1) // spec['q'], spec['p']))
    if k == 'enc':
        return G.encode(d[1])[d[2]]
    if k == 'form':
        return G(tuple(d[1]))
    if k == 'mul':
        return _plain(G, spec, d[1]) @ _plain(G, spec, d[2])
    if k == 'inv':
        return ~_plain(G, spec, d[1])
    if k == 'pow':
        return _plain(G, spec, d[1]) ^ d[2]
    raise ValueError(k)


def _canon(G, spec, r):
    """Canonical JSON-able value of a plain group element r of type G ('invalid: ...' if r is not an element)."""
    fam = spec['fam']
    try:
        if fam == 'hc':
            # HCDivisorCL(value, check=True) reads self.value before it is set (AttributeError for every value):
            # membership checked here (extended coordinates consistent, u | f - v^2; the identity is all-zero)
            chk = G(r.value, check=False)
            v = r.value
            if any(int(c) for c in v):
                if v[0]**2 != v[4] or v[0] * v[1] != v[5]:
                    raise ValueError('incorrect extended coordinates')
                if (G.f - chk.v**2) % chk.u:
                    raise ValueError('value not in Jacobian')
        else:
            chk = G(r.value)  # constructor with check=True validates membership
    except Exception as exc:
        return f'invalid element {r.value!r}: {type(exc).__name__}: {exc}'
    if fam == 'sym':
        return [int(x) for x in r.value]
    if fam in ('qr', 'sg'):
        return int(r.value) % spec['p']
    if fam == 'ec':
        q = G.field.order
        return [int(c) % q for c in r.normalize().value]
    if fam == 'cl':
        if tuple(chk.value) != tuple(r.value):
            return f'form {r.value!r} is not reduced'
        return [int(c) for c in r.value]
    if fam == 'hc':
        q = G.field.order
        return [int(c) % q for c in r.value]  # Costello-Lauter 6-tuples are unique
    raise ValueError(fam)


def _field_prime(spec):
    """Prime p of the field the group's shares live in (None for class groups: secure integers)."""
    fam = spec['fam']
    if fam == 'sym':
        n = spec['n']
        p = max(n, 2)
        while not R.is_prime(p):
            p += 1
        return p
    if fam in ('qr', 'sg'):
        return spec['p']
    return None


def _sym_lifted(case):
    """Secure Sym(n) whose share field GF(p), p = least prime >= n odd, is lifted (m >= p, t >= 1): class of F28a."""
    spec = case['group']
    if spec['fam'] != 'sym' or case['t'] < 1:
        return False
    p = _field_prime(spec)
    return p > 2 and case['m'] >= p


def _share_lifted(case):
    """The group's elements are shared over a small prime field that mpyc lifts to an extension field."""
    p = _field_prime(case['group'])
    return p is not None and case['t'] >= 1 and case['m'] >= p


def _sectype_exotic(case):
    """The group's sectype is not an ordinary prime field: a lifted small prime field, or GF(p^2) (BN256_twist);
    mpc.convert of another secure number into such a type is unreliable (class of F28e)."""
    spec = case['group']
    return _share_lifted(case) or (spec['fam'] == 'ec' and spec['curve'] == 'BN256_twist')


def _is_pub(a):
    return a[0] == 'p'


def _known_class(case, rec):
    """Class predicates of the known findings (see known_findings.d/F2.json, F28a-c.json)."""
    spec = case['group']
    op = rec[0]
    if spec['fam'] == 'sym' and spec['n'] == 0:
        return F28C
    if _sym_lifted(case):
        # every record that composes or inverts secret permutations (seclist with a secret index -> to_bits)
        if op in ('op', 'op2', 'inv', 'sub'):
            return F28A
        if op == 'rep':
            e = rec[2]
            if not _is_pub(rec[1]) and not (e[0] == 'i' and e[1] in (0, 1)):
                return F28A
            if _is_pub(rec[1]) and case['m'] > 1:
                return F28A  # product of the parties' contributions
    if _sectype_exotic(case):
        # a secure number of another type is converted into the sectype (exponent bits, if_else condition)
        if op == 'rep' and not _is_pub(rec[1]) and rec[2][0] in ('sf', 'si'):
            return F28E
        if op == 'ifelse' and rec[1][0] == 'si':
            return F28E
    if op == 'rep':
        a, e = rec[1], rec[2]
        if _is_pub(a) and e[0] == 'si' and case['t'] >= 1:
            return F2
        if _is_pub(a) and e[0] == 'sf' and case['t'] == 0 and case['m'] > e[3]:
            return F28D
        if not _is_pub(a) and e[0] == 'si' and e[2] < 0:
            return F28B
    if op == 'reppub':
        if any(e[0] == 'si' for e in rec[2]) and case['t'] >= 1:
            return F2
        if any(e[0] == 'sf' and case['m'] > e[3] for e in rec[2]) and case['t'] == 0:
            return F28D
    return None


# ------------------------------------------------------------------------------------------- generator
def _order(spec):
    """Group order if it is a known prime (then every element a satisfies a^order = 1), else None."""
    return _order_(json.dumps(spec, sort_keys=True))


@functools.lru_cache(maxsize=None)
@_quiet
def _order_(key):
    spec = json.loads(key)
    fam = spec['fam']
    if fam == 'qr':
        q = spec['p'] >> 1
        return q if R.is_prime(q) else None
    if fam == 'sg':
        return spec['q']
    if fam in ('ec', 'hc'):
        return int(_mkgroup(spec).order)
    if fam == 'cl':
        h = _mkgroup(spec).order
        return int(h) if h is not None and R.is_prime(int(h)) else None
    return None


@functools.lru_cache(maxsize=None)
@_quiet
def _forms(D):
    return [list(f) for f in RG.RefClassGroup(D).elements()]


def _int_around(n):
    return st.one_of(st.integers(0, max(n - 1, 0)), st.sampled_from(sorted({0, 1, 2, n - 1, n, n + 1, -1, -2, -n, 2 * n + 1})))


@st.composite
def _elem(draw, spec, sub=False, depth=0):
    """Element descriptor; sub=True: only elements of the subgroup generated by the generator."""
    fam = spec['fam']
    if depth < 2 and draw(st.integers(0, 7)) == 0:
        how = draw(st.sampled_from(['mul', 'inv', 'pow']))
        a = draw(_elem(spec, sub, depth + 1))
        if how == 'mul':
            return ['mul', a, draw(_elem(spec, sub, depth + 1))]
        if how == 'inv':
            return ['inv', a]
        return ['pow', a, draw(st.integers(-5, 9))]
    if draw(st.integers(0, 11)) == 0:
        return ['id']
    if fam == 'sym':
        n = spec['n']
        kind = draw(st.sampled_from(['perm', 'perm', 'perm', 'cycle', 'swap']))
        if kind == 'perm' or n < 2:
            return ['perm', list(draw(st.permutations(list(range(n)))))]
        if kind == 'cycle':
            s = draw(st.integers(1, n - 1))
            return ['perm', [(i + s) % n for i in range(n)]]
        i = draw(st.integers(0, n - 2))
        p = list(range(n))
        p[i], p[i + 1] = p[i + 1], p[i]
        return ['perm', p]
    if fam == 'qr':
        p = spec['p']
        kinds = ['gen', 'sq', 'sq'] + (['enc'] if p > 4 * 128 and not sub else [])
        kind = draw(st.sampled_from(kinds))
        if kind == 'gen':
            return ['gen', draw(_int_around(p >> 1))]
        if kind == 'sq':
            return ['sq', draw(st.one_of(st.integers(1, p - 1), st.sampled_from([1, p - 1, 2 % p or 1, (p - 1) // 2 or 1])))]
        return ['enc', draw(st.integers(0, min(15, p // 128 - 2))), draw(st.integers(0, 1))]
    if fam == 'sg':
        p, q = spec['p'], spec['q']
        kind = draw(st.sampled_from(['gen', 'gen', 'sgx']))
        if kind == 'gen':
            return ['gen', draw(_int_around(q))]
        return ['sgx', draw(st.integers(1, p - 1))]
    if fam == 'ec':
        n = _order(spec)
        kinds = ['gen', 'gen', 'gensmall'] + (['enc'] if not sub and spec['curve'] != 'BN256_twist' else [])
        kind = draw(st.sampled_from(kinds))
        if kind == 'gen':
            return ['gen', draw(_int_around(n))]
        if kind == 'gensmall':
            return ['gen', draw(st.integers(-8, 40))]
        return ['enc', draw(st.integers(0, 2**32)), draw(st.integers(0, 1))]
    if fam == 'cl':
        D = spec['D']
        if -D < 10**6:
            if sub and D % 8 == 1 and draw(st.integers(0, 1)):
                return ['gen', draw(st.integers(-6, 12))]
            if sub and D % 8 != 1:
                return ['id']
            return ['form', draw(st.sampled_from(_forms(D)))]
        kind = draw(st.sampled_from(['gen', 'gen', 'enc'] if not sub else ['gen']))
        if kind == 'gen':
            return ['gen', draw(st.integers(-20, 60))]
        return ['enc', draw(st.integers(0, 3)), draw(st.integers(0, 1))]
    raise ValueError(fam)


@st.composite
def _operand(draw, spec, m, forms, prev=(), sub=False, desc=None):
    """['s', sender, d] dealt by sender | ['c', d] secgrp(a) | ['v', d] secgrp(a.value) | ['p', d] public |
    ['r', k] result of record k."""
    form = draw(st.sampled_from(forms))
    if form == 'r':
        if prev:
            return ['r', draw(st.sampled_from(list(prev)))]
        form = 's'
    d = desc if desc is not None else draw(_elem(spec, sub))
    if form == 's':
        return ['s', draw(st.integers(0, m - 1)), d]
    return [form, d]


SEC = ['s', 's', 's', 's', 'c', 'v', 'r', 'r']     # secure operand forms
ANY = SEC + ['p', 'p']


@st.composite
def _exp_small_field(draw, m, t, bits):
    """Prime p > m (not lifted) with at most `bits` bits for a secure exponent field."""
    ps = [p for p in (2, 3, 5, 7, 11, 13, 31, 61, 127, 251, 1021, 65521) if p.bit_length() <= bits and (t == 0 or p > m)]
    return draw(st.sampled_from(ps)) if ps else None


def _popcount(n):
    return bin(abs(n)).count('1')


def _cost(case, rec):
    """Rough cost estimate (seconds on an idle core) of one record; only used to bound generated cases."""
    spec, m = case['group'], case['m']
    fam = spec['fam']
    scale = 0.3 if m <= 2 else (1 if m <= 4 else (2 if m <= 6 else 3))
    op = rec[0]
    if fam == 'cl':
        unit = (1.5 if -spec['D'] < 10**6 else 5.0) * scale
    elif fam == 'ec':
        unit = 0.05 * scale * (3 if spec['curve'] == 'BN256_twist' else 1)
    elif fam == 'sym':
        unit = 0.03 * spec['n'] * scale * scale  # seclist access with secret indices
    elif fam == 'hc':
        unit = 0.03 * scale
    else:
        unit = 0.004 * scale
    if op == 'inv' and fam == 'sym':
        return unit
    if op in ('op', 'op2', 'sub'):
        return unit
    if op in ('eq', 'ne'):
        if fam == 'ec':
            return {1: 0.2, 2: 0.3, 3: 1.0, 4: 1.3, 5: 2.5, 6: 3.0, 7: 4.0}[m] * (3 if spec['curve'] == 'BN256_twist' else 1)
        if fam == 'hc':
            return {1: 0.2, 2: 0.3, 3: 1.0, 4: 1.3, 5: 2.5, 6: 3.0, 7: 4.0}[m] * 0.7
        return 0.02 * scale
    if op == 'rep':
        e = rec[2]
        if _is_pub(rec[1]):
            return unit * (m - 1) + 0.02
        if e[0] == 'i':
            n = abs(e[1])
            if fam in ('qr', 'sg'):
                return 0.0005 * max(n.bit_length(), 1) * scale
            return unit * max(n.bit_length() + _popcount(n) - 2, 0) + 0.01
        bits = e[3] if e[0] == 'si' else (e[3] - 1).bit_length()
        return unit * 2 * bits + 0.02 * bits * scale
    return 0.02 * scale


@st.composite
def _case_hc(draw, tier, m, t, prss):
    """kummer1271 in Costello-Lauter coordinates (SecureHCDivisorCL): the formulas only cover divisors of full degree
    (class docstring), so every secure operation is generated with operands g^j, g^k, j != +-k, j, k != 0 (mod n), and
    a result != identity; all elements are tracked as multiples of the generator."""
    spec = {'fam': 'hc', 'curve': 'kummer1271'}
    case = dict(m=m, t=t, prss=prss, seed=draw(st.integers(0, 2**20)), group=spec)
    n = _order(spec)
    ops, logs = [], {}  # logs[k] = discrete log of the (secure group element) result of record k
    known_budget = 1
    spent = 0.0

    def expo(avoid=()):
        k = draw(st.one_of(st.integers(1, 60), st.integers(1, n - 1), st.sampled_from([1, 2, n - 1, n - 2, (n - 1) // 2])))
        while k % n == 0 or any((k - a) % n == 0 or (k + a) % n == 0 for a in avoid):
            k += 1
        return k % n

    def opnd(forms, avoid=()):
        """-> (operand, discrete log)"""
        form = draw(st.sampled_from(forms))
        if form == 'r':
            ok = [i for i, k in logs.items() if not any((k - a) % n == 0 or (k + a) % n == 0 for a in avoid)]
            if ok:
                i = draw(st.sampled_from(ok))
                return ['r', i], logs[i]
            form = 's'
        k = expo(avoid)
        if form == 's':
            return ['s', draw(st.integers(0, m - 1)), ['gen', k]], k
        return [form, ['gen', k]], k

    for _ in range(draw(st.integers(1, 6 if tier == 'quick' else 8))):
        op = draw(st.sampled_from(['out', 'op', 'op', 'op2', 'inv', 'sub', 'eq', 'ne', 'ifelse', 'rep', 'rep', 'rep', 'reppub']))
        if op in ('eq', 'ne') and spent > 3:
            op = 'inv'
        i = len(ops)
        if op == 'out':
            ops.append(['out', opnd(SEC)[0]])
        elif op in ('op', 'sub'):
            pat = draw(st.sampled_from(['ss', 'ss', 'sp', 'ps']))
            a, ka = opnd(['p'] if pat[0] == 'p' else SEC)
            b, kb = opnd(['p'] if pat[1] == 'p' else SEC, avoid=[ka])
            ops.append(['op', a, b, draw(st.sampled_from(['@', 'alt']))] if op == 'op' else ['sub', a, b])
            logs[i] = (ka + kb) % n if op == 'op' else (ka - kb) % n
        elif op == 'op2':
            a, ka = opnd(SEC)
            ops.append(['op2', a, draw(st.sampled_from(['@', 'alt']))])
            logs[i] = 2 * ka % n
        elif op == 'inv':
            a, ka = opnd(SEC)
            ops.append(['inv', a, draw(st.sampled_from(['~', 'inverse', 'alt']))])
            logs[i] = -ka % n
        elif op in ('eq', 'ne'):
            a, ka = opnd(SEC)
            if draw(st.booleans()):
                b = draw(st.sampled_from([['c', ['gen', ka]], ['p', ['gen', ka - n]], ['s', 0, ['gen', ka + n]]]))
            else:
                b = opnd(ANY)[0]
            ops.append([op, a, b])
            spent += _cost(case, ops[-1])
        elif op == 'ifelse':
            c = [draw(st.sampled_from(['s', 's', 'c', 'si'])), draw(st.integers(0, m - 1)), draw(st.integers(0, 1))]
            a, ka = opnd(ANY)
            b, kb = opnd(ANY)
            ops.append(['ifelse', c, a, b])
            logs[i] = ka if c[2] else kb
        elif op == 'rep':
            nota = draw(st.sampled_from(['repeat', 'xor', 'alt']))
            if draw(st.integers(0, 1)) and (m == 1 or t >= 1):
                # public base; for t = 0, m >= 3 the parties' contributions g^(lambda_i x) cancel (not generated)
                a, ka = opnd(['p'])
                if t >= 1 and known_budget and draw(st.sampled_from([True] + [False] * 5)):
                    known_budget = 0
                    ops.append(['rep', a, ['si', draw(st.integers(-1, m - 1)), draw(st.integers(1, 100)), 8], nota])  # class of F2
                else:
                    x = expo()
                    ops.append(['rep', a, ['sf', draw(st.integers(-1, m - 1)), x, n], nota])
                    logs[i] = ka * x % n
            else:
                a, ka = opnd(SEC)
                x = draw(st.integers(1, 300)) * draw(st.sampled_from([1, 1, 1, -1]))
                ops.append(['rep', a, ['i', x], nota])
                logs[i] = ka * x % n
        else:
            cnt = draw(st.sampled_from([0, 0, 1, 2, 3]))
            bases = [['gen', expo()] for _ in range(max(cnt, 1))]
            if t >= 1:
                exps = [['sf', draw(st.integers(-1, m - 1)), draw(_int_around(n)) % n, n] for _ in bases]
            else:
                exps = [['si', draw(st.integers(-1, m - 1)), draw(st.integers(-128, 127)), 8] for _ in bases]
            ops.append(['reppub', bases, exps, cnt == 0])
    case['ops'] = ops
    return case


@st.composite
def _case(draw, tier):
    thorough = tier == 'thorough'
    fam = draw(st.sampled_from(['sym'] * 4 + ['qr'] * 5 + ['sg'] * 3 + ['ec'] * 3 + ['cl'] * 2 + ['hc']))
    # configuration: cheap m <= 2 part + solid share of m >= 3, t >= 1
    def chance(k):
        return draw(st.sampled_from([True] + [False] * (k - 1)))

    if chance(4):
        m = draw(st.sampled_from([1, 1, 2]))
        t = 0
    else:
        m = draw(st.sampled_from([3, 3, 3, 4, 4, 5, 5, 6, 7]))
        if fam == 'cl':
            m = min(m, 5 if thorough else 3)
        tmax = (m - 1) // 2
        t = draw(st.sampled_from([tmax, tmax, tmax, 1, 1, 1, 1, 0]))
    prss = draw(st.booleans())
    if fam == 'hc':
        return draw(_case_hc(tier, m, t, prss))
    if fam == 'sym':
        n = draw(st.sampled_from([1, 2, 3, 3, 4, 4, 5, 5, 5, 6, 7]))
        spec = {'fam': 'sym', 'n': n}
        if chance(120):
            # class of F28c (degenerate Sym(0)): one record, counted separately
            return dict(m=m, t=t, prss=prss, seed=draw(st.integers(0, 2**20)), group={'fam': 'sym', 'n': 0},
                        ops=[['out', draw(st.sampled_from([['c', ['id']], ['s', 0, ['id']]]))]])
    elif fam == 'qr':
        pool = SAFE + SAFE + SAFE_BIG + QR_OTHER + [5, 7, 7, 11, 11]
        spec = {'fam': 'qr', 'p': draw(st.sampled_from(pool))}
    elif fam == 'sg':
        p, q = draw(st.sampled_from(SG_PQ + SG_PQ[:4]))
        spec = {'fam': 'sg', 'p': p, 'q': q}
    elif fam == 'ec':
        c, k = draw(st.sampled_from(EC_TYPES))
        spec = {'fam': 'ec', 'curve': c, 'coord': k}
    else:
        big = draw(st.integers(0, 11 if not thorough else 5)) == 0
        spec = {'fam': 'cl', 'D': draw(st.sampled_from(_cl_big() if big else CL_D + CL_D[-10:]))}
        if big and m > (3 if thorough else 2):
            m, t = (3, min(t, 1)) if thorough else (1, 0)
    case = dict(m=m, t=t, prss=prss, seed=draw(st.integers(0, 2**20)), group=spec)
    q = _order(spec)
    lifted_sym = _sym_lifted(case)
    nmax = {'sym': 6, 'qr': 8, 'sg': 8, 'ec': 5, 'cl': 3}[fam] + (2 if thorough and fam != 'cl' else 0)
    nops = draw(st.integers(1, nmax))
    menu = ['out', 'op', 'op', 'op2', 'inv', 'inv', 'sub', 'eq', 'eq', 'ne', 'ifelse', 'ifelse', 'rep', 'rep', 'rep',
            'rep', 'reppub']
    if fam == 'ec':
        menu = menu + ['op2', 'eq']      # dedicated doubling formulas; equality across representations
    if fam == 'cl':
        menu = menu + ['op2', 'op2', 'op']
    if lifted_sym:
        menu = ['out', 'eq', 'eq', 'ne', 'ifelse', 'ifelse', 'rep01']
    budget_s = 6.0 if thorough else 2.5
    ops = []
    reusable = []  # indices of records whose result is a secure group element outside the known classes
    state = dict(known_budget=1, spent=0.0)  # at most one record of a known-finding class per case
    # sizes of exponents that keep the secure square-and-multiply chains affordable
    pub_bits = {'sym': 12, 'qr': 80, 'sg': 80, 'ec': 8 if not thorough else 12, 'cl': 2 if not thorough else 3}[fam]
    sec_bits = {'sym': 5, 'qr': 16, 'sg': 16, 'ec': 5 if not thorough else 8, 'cl': 2}[fam]

    def opnd(forms, **kw):
        return draw(_operand(spec, m, forms, prev=reusable, **kw))

    def record(op):
        """-> (record, result is a reusable secure group element)"""
        if op == 'out':
            return ['out', opnd(SEC)], False
        if op == 'op':
            pat = draw(st.sampled_from(['ss', 'ss', 'sa', 'sp', 'ps', 'ps']))  # public operand on either side
            a = opnd(['p'] if pat[0] == 'p' else SEC)
            b = opnd({'s': SEC, 'a': ANY, 'p': ['p']}[pat[1]])
            if draw(st.integers(0, 9)) == 0 and a[0] != 'r':
                b = ['c', a[-1]] if _is_pub(a) else list(a)  # equal values, distinct objects
            return ['op', a, b, draw(st.sampled_from(['@', 'alt']))], True
        if op == 'op2':
            return ['op2', opnd(SEC), draw(st.sampled_from(['@', 'alt']))], True
        if op == 'inv':
            return ['inv', opnd(SEC), draw(st.sampled_from(['~', 'inverse', 'alt']))], True
        if op == 'sub':
            pat = draw(st.sampled_from(['ss', 'ss', 'sp', 'ps']))
            return ['sub', opnd(['p'] if pat[0] == 'p' else SEC), opnd(['p'] if pat[1] == 'p' else SEC)], True
        if op in ('eq', 'ne'):
            a = opnd(SEC)
            if a[0] == 'r' and draw(st.booleans()):
                a = opnd(['s', 's', 'c', 'v'])
            if a[0] != 'r' and draw(st.sampled_from([True, True, False])):
                d = a[-1]
                if draw(st.sampled_from([True, True, True, False])):
                    e = draw(_elem(spec))
                    d = ['mul', ['mul', d, e], ['inv', e]]  # equal element, reached by a different computation
                b = opnd(['s', 's', 'c', 'v', 'p'], desc=d)
            else:
                b = opnd(ANY)
            if draw(st.integers(0, 5)) == 0 and _is_pub(b):
                a, b = b, a  # public element on the left (reflected __eq__)
            return [op, a, b], False
        if op == 'ifelse':
            cform = draw(st.sampled_from(['s', 's', 'c', 'si']))
            if cform == 'si' and _sectype_exotic(case):
                # converted into a lifted / extension-field sectype: class of F28e
                if state['known_budget'] and chance(3):
                    state['known_budget'] = 0
                else:
                    cform = 's'
            c = [cform, draw(st.integers(0, m - 1)), draw(st.integers(0, 1))]
            return ['ifelse', c, opnd(ANY), opnd(ANY)], not (cform == 'si' and _sectype_exotic(case))
        if op == 'rep01':
            return ['rep', opnd(['s', 's', 'c']), ['i', draw(st.integers(0, 1))],
                    draw(st.sampled_from(['repeat', 'xor']))], False
        if op == 'rep':
            nota = draw(st.sampled_from(['repeat', 'xor', 'alt']))
            if draw(st.integers(0, 2)) == 0:
                # public base, secure exponent (the parties exponentiate locally)
                can_sf = q is not None or (fam == 'sym' and spec['n'] >= 2)
                if t >= 1:
                    want_si = bool(state['known_budget']) and chance(6)  # class of F2
                else:
                    want_si = draw(st.booleans()) or not can_sf
                if want_si:
                    if t >= 1:
                        state['known_budget'] = 0
                    l = draw(st.sampled_from([4, 8, 16, 32] + ([int(spec['D']).bit_length() + 3] * 3 if fam == 'cl' else [])))
                    n = draw(st.integers(-(1 << (l - 1)), (1 << (l - 1)) - 1))
                    if draw(st.integers(0, 2)) == 0:
                        n = draw(st.sampled_from([-2, -1, 0, 1, 2, 3, 5]))
                    return ['rep', opnd(['p']), ['si', draw(st.integers(-1, m - 1)), n, l], nota], t == 0
                if can_sf:
                    p = q if q is not None else draw(st.sampled_from([r for r in (2, 3, 5, 7) if r <= spec['n']]))
                    skip = t == 0 and m > p  # class of F28d: only as the one known-class record of a case
                    if skip and state["known_budget"] and chance(2):
                        state['known_budget'] = 0
                        skip = False
                        reuse_pub = False
                    else:
                        reuse_pub = True
                if can_sf and not skip:
                    if q is not None:
                        a = opnd(['p'], sub=True)
                    else:
                        # a cycle of prime length p (the repository's own test uses Sym(11) with SecFld(11))
                        nn = spec['n']
                        base = list(draw(st.permutations(list(range(nn)))))[:p]
                        perm = list(range(nn))
                        for i in range(p):
                            perm[base[i]] = base[(i + 1) % p]
                        a = ['p', ['perm', perm]]
                    n = draw(_int_around(p)) % p
                    return ['rep', a, ['sf', draw(st.integers(-1, m - 1)), n, p], nota], reuse_pub
            a = opnd(SEC)
            ekind = draw(st.sampled_from(['i', 'i', 'i', 'sf', 'sf', 'si', 'si']))
            f28e = False
            if ekind != 'i' and _sectype_exotic(case):
                # exponent bits are converted into a lifted / extension-field sectype: class of F28e
                if state['known_budget'] and chance(3):
                    state['known_budget'] = 0
                    f28e = True
                else:
                    ekind = 'i'
            if ekind == 'i':
                which = draw(st.sampled_from(['small', 'small', 'bits', 'special']))
                if which == 'small':
                    n = draw(st.integers(-4, 6))
                    if fam == 'cl' and not thorough:
                        n = draw(st.integers(-3, 3))
                elif which == 'bits':
                    kb = draw(st.integers(1, pub_bits))
                    n = (1 << (kb - 1)) | draw(st.integers(0, (1 << (kb - 1)) - 1))
                    if draw(st.integers(0, 3)) == 0:
                        n = -n
                else:
                    qq = q if q is not None and q.bit_length() <= pub_bits else 3
                    n = draw(st.sampled_from([0, 1, -1, 2, -2, 3, qq, qq - 1, qq + 1, -qq]))
                return ['rep', a, ['i', n], nota], True
            p = draw(_exp_small_field(m, t, sec_bits)) if ekind == 'sf' else None
            if p is not None:
                if q is not None and q.bit_length() <= sec_bits and (t == 0 or q > m) and draw(st.integers(0, 1)):
                    p = q  # exponent field over the group order
                n = draw(_int_around(p)) % p
                return ['rep', a, ['sf', draw(st.integers(-1, m - 1)), n, p], nota], not f28e
            l = draw(st.integers(2, sec_bits))
            n = draw(st.integers(0, (1 << (l - 1)) - 1))
            if f28e:
                return ['rep', a, ['si', draw(st.integers(-1, m - 1)), n, l], nota], False
            if state['known_budget'] and chance(5):
                state['known_budget'] = 0
                n = draw(st.integers(-(1 << (l - 1)), -1))  # class of F28b
            return ['rep', a, ['si', draw(st.integers(-1, m - 1)), n, l], nota], n >= 0
        if op == 'reppub':
            cnt = draw(st.sampled_from([0, 0, 1, 2, 3]))  # 0: single base / exponent (not a list)
            if fam == 'sym' and spec['n'] >= 3:
                cnt = min(cnt, 1)  # multi-exponentiation multiplies per-party partial products: abelian groups only
            if t >= 1:
                want_si = bool(state['known_budget']) and chance(6)  # class of F2
            else:
                want_si = draw(st.booleans()) or q is None
            if not want_si and q is None:
                return ['out', opnd(SEC)], False
            if not want_si and t == 0 and m > q:  # class of F28d
                if not (state['known_budget'] and chance(2)):
                    return ['out', opnd(SEC)], False
                state['known_budget'] = 0
            if want_si and t >= 1:
                state['known_budget'] = 0
            bases, exps = [], []
            l = draw(st.sampled_from([4, 8, 16, 32]))  # one secure type per call
            for _ in range(max(cnt, 1)):
                if want_si:
                    bases.append(draw(_elem(spec)))
                    exps.append(['si', draw(st.integers(-1, m - 1)), draw(st.integers(-(1 << (l - 1)), (1 << (l - 1)) - 1)), l])
                else:
                    bases.append(draw(_elem(spec, sub=True)))
                    exps.append(['sf', draw(st.integers(-1, m - 1)), draw(_int_around(q)) % q, q])
            return ['reppub', bases, exps, cnt == 0], False
        raise ValueError(op)

    for _ in range(nops):
        kb = state['known_budget']
        rec, reuse = record(draw(st.sampled_from(menu)))
        c = _cost(case, rec)
        if state['spent'] > 0.3 and state['spent'] + c > budget_s:
            state['known_budget'] = kb
            rec, reuse = record(draw(st.sampled_from(['out', 'inv', 'ifelse'])))  # cheap for every family
            c = _cost(case, rec)
        state['spent'] += c
        if reuse:
            reusable.append(len(ops))
        ops.append(rec)
    if lifted_sym and chance(3):
        # class of F28a, one record per case, executed in a run of its own
        which = draw(st.sampled_from(['op', 'op2', 'inv', 'rep']))
        a = draw(_operand(spec, m, ['s', 's', 'c']))
        if which == 'op':
            ops.append(['op', a, draw(_operand(spec, m, ['s', 'c', 'p'])), '@'])
        elif which == 'op2':
            ops.append(['op2', a, '@'])
        elif which == 'inv':
            ops.append(['inv', a, '~'])
        else:
            ops.append(['rep', a, ['i', draw(st.sampled_from([-1, 2, 3]))], 'xor'])
    case['ops'] = ops
    return case


def strategy(tier):
    return _case(tier)


MATRIX = [{'fam': 'sym', 'n': 2}, {'fam': 'sym', 'n': 4}, {'fam': 'sym', 'n': 5}, {'fam': 'qr', 'p': 1019},
          {'fam': 'qr', 'p': 18446744073709550147}, {'fam': 'sg', 'p': 35141, 'q': 251},
          {'fam': 'sg', 'p': 2149481927, 'q': 65521}] + \
         [{'fam': 'ec', 'curve': c, 'coord': k} for c, k in EC_TYPES] + \
         [{'fam': 'hc', 'curve': 'kummer1271'}, {'fam': 'cl', 'D': -47}, {'fam': 'cl', 'D': -1123}]
MATRIX_THOROUGH = [{'fam': 'sym', 'n': 1}, {'fam': 'sym', 'n': 3}, {'fam': 'sym', 'n': 6}, {'fam': 'sym', 'n': 7},
                   {'fam': 'qr', 'p': 7}, {'fam': 'qr', 'p': 13}, {'fam': 'qr', 'p': 65267}, {'fam': 'sg', 'p': 7, 'q': 3},
                   {'fam': 'sg', 'p': 9223372101279285217, 'q': 2147483647}, {'fam': 'cl', 'D': -23}, {'fam': 'cl', 'D': -71},
                   {'fam': 'cl', 'D': -199}, {'fam': 'cl', 'D': -647}]


def _matrix_case(spec, m, t, prss, idx, thorough=False):
    """Deterministic case that exercises every record kind once on the given group (records of the known-finding
    classes of this configuration are left out); elements are drawn from a generator seeded with the cell index."""
    rng = random.Random(f'C28/matrix/{idx}')
    fam = spec['fam']
    case = dict(m=m, t=t, prss=prss, seed=1000 + idx, group=spec)
    q = _order(spec)
    G = _mkgroup(spec)

    def pick():
        if fam == 'sym':
            p = list(range(spec['n']))
            rng.shuffle(p)
            return ['perm', p]
        if fam == 'qr':
            return ['sq', rng.randrange(2, spec['p'] - 1)] if spec['p'] > 3 else ['id']
        if fam == 'sg':
            return ['sgx', rng.randrange(2, spec['p'] - 1)]
        if fam == 'ec':
            if spec['curve'] != 'BN256_twist' and rng.randrange(3) == 0:
                return ['enc', rng.randrange(2**32), rng.randrange(2)]
            return ['gen', rng.randrange(1, q)]
        if fam == 'hc':
            return ['gen', rng.randrange(1, 10**9)]
        return ['form', rng.choice(_forms(spec['D']))]

    a, b = pick(), pick()
    for _ in range(20):
        if fam == 'hc' and a[1] != b[1]:
            break
        if fam != 'hc' and not (_plain(G, spec, a) == _plain(G, spec, b)) and \
                (fam != 'cl' or not (_plain(G, spec, a) == ~_plain(G, spec, b))):
            break
        b = pick()
    e = pick()
    alt = ['gen', a[1] + q] if fam == 'hc' else ['mul', ['mul', a, e], ['inv', e]]
    s0, s1 = 0, (m - 1)
    g = ['gen', 3] if fam != 'sym' and not (fam == 'cl' and spec['D'] % 8 != 1) else None
    if fam == 'cl':
        # every composition costs seconds: one of each, m = 1 carries the longer list
        recs = [['op2', ['s', s0, a], '@'], ['inv', ['s', s1, a], 'alt'], ['eq', ['s', s0, a], ['c', alt]],
                ['ifelse', ['s', s1, 0], ['s', s0, a], ['p', b]]]
        if m == 1:
            recs += [['op', ['p', b], ['s', s0, a], 'alt'], ['rep', ['r', 0], ['i', -2], 'alt'], ['ne', ['r', 4], ['p', b]]]
            if q is not None:
                recs.append(['rep', ['p', a], ['sf', 0, q - 1, q], 'repeat'])
        case['ops'] = recs
        return case
    recs = [['out', ['s', s0, a]],
            ['op', ['p', b], ['s', s1, a], '@'],
            ['op2', ['s', s0, a], 'alt'],
            ['inv', ['c', a], 'alt'],
            ['sub', ['s', s1, a], ['p', b]],
            ['eq', ['s', s0, a], ['c', alt]],
            ['ne', ['v', a], ['s', s1, b]],
            ['eq', ['p', b], ['s', s0, a]],
            ['ifelse', ['s', s1, 0], ['s', s0, a], ['p', b]],
            ['ifelse', ['si', s0, 1], ['c', a], ['s', s1, b]],
            ['rep', ['s', s0, a], ['i', -5], 'alt'],
            ['rep', ['r', 1], ['i', 2], 'xor'],
            ['op', ['r', 2], ['s', s0, b], 'alt']]
    if fam == 'ec' and m >= 3 and not thorough:
        del recs[7]  # equality tests on 255..448-bit fields cost seconds each for m >= 3: quick keeps two of them
    if fam != 'hc':
        recs += [['rep', ['s', s1, a], ['si', s0, 3, 3], 'repeat'],
                 ['rep', ['s', s0, b], ['sf', s1, 5, 7 if m < 7 else 11], 'xor'],
                 ['op', ['s', s0, a], ['c', ['id']], '@']]
        if not (fam == 'ec' and m >= 3 and not thorough):
            recs.append(['eq', ['s', s0, ['id']], ['p', ['mul', a, ['inv', a]]]])
    if q is not None and g is not None and (fam != 'hc' or m == 1 or t >= 1):
        x1, x2 = rng.randrange(1, q), rng.randrange(1, q)
        recs += [['rep', ['p', g], ['sf', s1, x1, q], 'xor'],
                 ['rep', ['p', ['gen', 5]], ['sf', -1, q - 1, q], 'alt'],
                 ['reppub', [g, ['gen', 7]], [['sf', s0, x1, q], ['sf', s1, x2, q]], False],
                 ['reppub', [g], [['sf', s0, x2, q]], True]]
    if fam == 'sym' and spec['n'] >= 2:
        p = max(r for r in (2, 3, 5, 7) if r <= spec['n'])
        cyc = [(i + 1) % p if i < p else i for i in range(spec['n'])]
        recs.append(['rep', ['p', ['perm', cyc]], ['sf', s1, p - 1, p], 'repeat'])
    if t == 0:
        recs.append(['rep', ['p', b], ['si', s0, -3, 8], 'xor'])
        if fam == 'sym' and spec['n'] >= 3:
            recs.append(['reppub', [a], [['si', s0, -2, 8]], False])  # non-abelian: one base
        else:
            recs.append(['reppub', [a, b], [['si', s0, 2, 8], ['si', -1, -1, 8]], False])
    keep = [k for k, rec in enumerate(recs) if _known_class(dict(case, ops=recs), rec) is None]
    # drop records that depend on dropped ones, renumber 'r' operands
    pos, out = {}, []
    for k in keep:
        rec = json.loads(json.dumps(recs[k]))
        ok = True
        for opd in _operands_raw(rec):
            if opd[0] == 'r':
                if opd[1] in pos:
                    opd[1] = pos[opd[1]]
                else:
                    ok = False
        if ok:
            pos[k] = len(out)
            out.append(rec)
    case['ops'] = out
    return case


def enumerate_cases(tier):
    """Deterministic matrix: every group type of MATRIX x (m=1 | m=3, t=1 [| m=5, t=2 | m=4, t=1]) with one record of
    every kind; thorough adds more groups/configurations and full-size secret-base / secret-exponent repeat on
    255/256-bit curves (DESIGN C28 cost note)."""
    thorough = tier == 'thorough'
    specs = MATRIX + (MATRIX_THOROUGH if thorough else [])
    configs = [(1, 0, True), (3, 1, False)] + ([(5, 2, True), (4, 1, True), (3, 0, False), (7, 3, False)] if thorough else [])
    idx = 0
    for spec in specs:
        for m, t, prss in configs:
            idx += 1
            if spec['fam'] == 'cl' and (m > 5 or (m > 3 and -spec['D'] > 1000)):
                continue
            if spec['fam'] == 'ec' and m == 7 and spec['curve'] in ('BN256_twist', 'Ed448'):
                continue
            yield _matrix_case(spec, m, t, prss, idx, thorough)
    if not thorough:
        return
    n25519 = 2**252 + 27742317777372353535851937790883648493
    nk1 = 0xFFFFFFFFFFFFFFFFFFFFFFFFFFFFFFFEBAAEDCE6AF48A03BBFD25E8CD0364141
    yield dict(m=3, t=1, prss=True, seed=7, group={'fam': 'ec', 'curve': 'Ed25519', 'coord': 'extended'},
               ops=[['rep', ['s', 1, ['gen', 0x1234567]], ['sf', 2, n25519 - 12345678901234567890, n25519], 'alt']])
    yield dict(m=1, t=0, prss=True, seed=8, group={'fam': 'ec', 'curve': 'secp256k1', 'coord': 'projective'},
               ops=[['rep', ['s', 0, ['gen', 3]], ['sf', 0, (nk1 * 2) // 3, nk1], 'xor']])
    yield dict(m=3, t=1, prss=False, seed=9, group={'fam': 'ec', 'curve': 'Ed25519', 'coord': 'affine'},
               ops=[['rep', ['s', 0, ['gen', 5]], ['si', 1, 2**62 - 987654321, 64], 'repeat']])


# ------------------------------------------------------------------------------------------- expected values
def _operands(rec):
    op = rec[0]
    if op in ('out', 'op2', 'inv'):
        return [rec[1]]
    if op in ('op', 'sub', 'eq', 'ne'):
        return [rec[1], rec[2]]
    if op == 'ifelse':
        return [rec[2], rec[3]]
    if op == 'rep':
        return [rec[1]]
    return []


_operands_raw = _operands


def _expected(G, spec, ops):
    """Per record: ('elem', plain element) | ('bit', 0/1); computed with mpyc.fingroups on plain elements."""
    exp = []

    def val(a):
        if a[0] == 'r':
            kind, v = exp[a[1]]
            assert kind == 'elem'
            return v
        return _plain(G, spec, a[-1])

    for rec in ops:
        op = rec[0]
        if op == 'out':
            exp.append(('elem', val(rec[1])))
        elif op == 'op':
            exp.append(('elem', val(rec[1]) @ val(rec[2])))
        elif op == 'op2':
            a = val(rec[1])
            exp.append(('elem', a @ a))
        elif op == 'inv':
            exp.append(('elem', ~val(rec[1])))
        elif op == 'sub':
            exp.append(('elem', val(rec[1]) @ ~val(rec[2])))
        elif op == 'eq':
            exp.append(('bit', int(val(rec[1]) == val(rec[2]))))
        elif op == 'ne':
            exp.append(('bit', int(not (val(rec[1]) == val(rec[2])))))
        elif op == 'ifelse':
            exp.append(('elem', val(rec[2]) if rec[1][2] else val(rec[3])))
        elif op == 'rep':
            a, e = val(rec[1]), rec[2]
            n = e[1] if e[0] == 'i' else e[2]
            if e[0] == 'sf':
                assert 0 <= n < e[3]
                if _is_pub(rec[1]):
                    # precondition of the public-base protocol: base^p = identity (exponent shares are combined mod p)
                    assert (a ^ e[3]) == G.identity, 'generator bug: order of the base does not divide the exponent field'
            exp.append(('elem', a ^ n))
        elif op == 'reppub':
            r = G.identity
            for d, e in zip(rec[1], rec[2]):
                a = _plain(G, spec, d)
                if e[0] == 'sf':
                    assert (a ^ e[3]) == G.identity, 'generator bug: order of the base does not divide the exponent field'
                r = r @ (a ^ e[2])
            exp.append(('elem', r))
        else:
            raise ValueError(op)
    return exp


# ------------------------------------------------------------------------------------------- secure side
def _make_prog(case, ops):
    spec = case['group']

    async def prog(mpc, pid):
        G = _mkgroup(spec)
        secgrp = mpc.SecGrp(G)
        add, mul = bool(G.is_additive), bool(G.is_multiplicative)
        info = dict(name=secgrp.__name__, group_ok=secgrp.group is G, sectype=secgrp.sectype.__name__)
        results = []     # per record: ('ok', secure object or awaitable) | ('exc', text) | ('bad-type', text)
        values = {}      # record index -> secure group element (for 'r' operands)

        def elem(a):
            form = a[0]
            if form == 'r':
                return values[a[1]]
            x = _plain(G, spec, a[-1])
            if form == 'p':
                return x
            if form == 'c':
                return secgrp(x)
            if form == 'v':
                return secgrp(x.value)
            return mpc.input(secgrp(x if pid == a[1] else None), senders=a[1])

        def expo(e):
            if e[0] == 'i':
                return e[1]
            if e[0] == 'sf':
                S = mpc.SecFld(modulus=e[3])
            else:
                S = mpc.SecInt(e[3])
            if e[1] < 0:
                return S(e[2])
            return mpc.input(S(e[2] if pid == e[1] else None), senders=e[1])

        def cond(c):
            if c[0] == 'si':
                S = mpc.SecInt(8)
                return mpc.input(S(c[2] if pid == c[1] else None), senders=c[1])
            S = secgrp.sectype
            if c[0] == 'c':
                return S(c[2])
            return mpc.input(S(c[2] if pid == c[1] else None), senders=c[1])

        for k, rec in enumerate(ops):
            op = rec[0]
            want = secgrp
            try:
                if op == 'out':
                    c = elem(rec[1])
                elif op == 'op':
                    a, b = elem(rec[1]), elem(rec[2])
                    if rec[3] == 'alt' and add:
                        c = a + b
                    elif rec[3] == 'alt' and mul:
                        c = a * b
                    else:
                        c = a @ b
                elif op == 'op2':
                    a = elem(rec[1])
                    if rec[2] == 'alt' and add:
                        c = a + a
                    elif rec[2] == 'alt' and mul:
                        c = a * a
                    else:
                        c = a @ a
                elif op == 'inv':
                    a = elem(rec[1])
                    if rec[2] == 'inverse':
                        c = a.inverse()
                    elif rec[2] == 'alt' and add:
                        c = -a
                    elif rec[2] == 'alt' and mul:
                        c = 1 / a
                    else:
                        c = ~a
                elif op == 'sub':
                    a, b = elem(rec[1]), elem(rec[2])
                    if add:
                        c = a - b
                    elif mul:
                        c = a / b
                    else:
                        c = a @ ~b
                elif op == 'eq':
                    c = elem(rec[1]) == elem(rec[2])
                    want = secgrp.sectype
                elif op == 'ne':
                    c = elem(rec[1]) != elem(rec[2])
                    want = secgrp.sectype
                elif op == 'ifelse':
                    cc = cond(rec[1])
                    c = secgrp.if_else(cc, elem(rec[2]), elem(rec[3]))
                elif op == 'rep':
                    a, x = elem(rec[1]), expo(rec[2])
                    if rec[3] == 'repeat':
                        c = secgrp.repeat(a, x)
                    elif rec[3] == 'alt' and add:
                        c = x * a
                    elif rec[3] == 'alt' and mul:
                        c = a ** x
                    else:
                        c = a ^ x
                elif op == 'reppub':
                    bases = [_plain(G, spec, d) for d in rec[1]]
                    exps = [expo(e) for e in rec[2]]
                    if rec[3]:
                        c = secgrp.repeat_public(bases[0], exps[0])
                    else:
                        c = secgrp.repeat_public(bases, exps)
                    want = None
                else:
                    raise ValueError(op)
                if want is not None and not isinstance(c, want):
                    results.append(('bad-type', f'{type(c).__name__} (expected {want.__name__})'))
                else:
                    results.append(('ok', c))
                    if want is secgrp:
                        values[k] = c
            except Exception as exc:  # behaviour of the code under test: judged by the oracle
                results.append(('exc', f'{type(exc).__name__}: {exc} | {traceback.format_exc()[-700:]}'))
        outs = []
        for k, (st_, c) in enumerate(results):
            if st_ != 'ok':
                outs.append([st_, c])
                continue
            op = ops[k][0]
            if op == 'reppub':
                r = await c
            else:
                r = await mpc.output(c)
            if op in ('eq', 'ne'):
                try:
                    outs.append(['bit', int(r), type(r).__name__])
                except Exception as exc:
                    outs.append(['bad-type', f'output {r!r} of == is not a number: {exc}'])
            elif type(r) is not G:
                outs.append(['bad-type', f'output is of type {type(r).__name__}, not {G.__name__}'])
            else:
                outs.append(['elem', _canon(G, spec, r)])
        return dict(info=info, outs=outs)

    return prog


def _run(case, ops):
    sim = simmod.Sim(case['m'], case['t'], prss=case['prss'], seed=case['seed'], schedule={'mode': 'fast'},
                     sec_param=30)
    try:
        res = sim.run_programs(_make_prog(case, ops))
    finally:
        sim.close()
    return res


def _run_and_check(case, ops, exp, labels):
    """Run `ops` (indices refer to case['ops'] via exp) -> (status, detail, failing op index or None).

    status: 'ok' | 'fail' | 'inconclusive'."""
    spec = case['group']
    G = _mkgroup(spec)
    try:
        res = _run(case, ops)
    except Exception:
        return 'fail', f'exception on valid input: {traceback.format_exc()[-2500:]}', None
    if res.inconclusive:
        return 'inconclusive', '', None
    if not res.all_done:
        errs = '\n'.join(e[-1500:] for _, e in res.errors[:2])
        return 'fail', f'run did not complete: {res.describe()}\n{errs}', None
    v0 = res.values[0]
    if not v0['info']['group_ok']:
        return 'fail', f'SecGrp(G).group is not G: {v0["info"]}', None
    for i, v in enumerate(res.values):
        if v['info'] != v0['info']:
            return 'fail', f'parties 0 and {i} disagree on the secure type: {v0["info"]} vs {v["info"]}', None
    for k, rec in enumerate(ops):
        kind, w = exp[k]
        wc = _canon(G, spec, w) if kind == 'elem' else w
        for i, v in enumerate(res.values):
            o = v['outs'][k]
            if o[0] == 'exc':
                return 'fail', f'record {k} {rec}: exception on valid input at party {i}: {o[1]}', k
            if o[0] == 'bad-type':
                return 'fail', f'record {k} {rec}: party {i}: {o[1]}', k
            if o[0] != kind:
                return 'fail', f'record {k} {rec}: party {i} got a {o[0]} result {o[1]!r}, expected {kind} {wc!r}', k
            if o[1] != wc:
                return 'fail', (f'record {k} {rec}: party {i} opened {o[1]!r}, plain group result {wc!r} '
                                f'(canonical values)'), k
    return 'ok', '', None


_WHAT = {
    F2: 'public base ** secure-INTEGER exponent: exponent shares are recombined modulo the secure integer field prime',
    F28A: 'secure Sym(n) over a lifted share field GF(p) (m >= p, t >= 1): composing/inverting secret permutations raises '
          'TypeError (to_bits on a lifted field)',
    F28B: 'secure base ** negative secure integer gives base^(x mod 2^l)',
    F28C: 'secure Sym(0): input/output of the empty permutation raises',
    F28E: 'group shared over a lifted small prime field or over GF(p^2): secure exponent bits / secure-integer if_else '
          'condition are converted into the sectype with mpc.convert, which is unreliable for such targets (cf. F06a)',
    F28D: 'public base ** secure field exponent over GF(p) with t = 0 and m > p: recombination vector over m points of GF(p)',
}


def _known_signature(cls, detail):
    """Does the observed failure look like the recorded finding (and not like something else)?"""
    if cls == F2:
        return 'opened' in detail and 'plain group result' in detail
    if cls == F28B:
        return 'opened' in detail and 'plain group result' in detail
    if cls == F28A:
        return 'run did not complete' in detail and 'TypeError: Binary field or prime field required' in detail
    if cls == F28E:
        return ('run did not complete' in detail and 'AssertionError' in detail and 'out_conv' in detail) or \
            ('run did not complete' in detail and 'TypeError' in detail and 'in _convert' in detail) or \
            ('opened' in detail and 'plain group result' in detail)
    if cls == F28D:
        return 'run did not complete' in detail and 'ZeroDivisionError' in detail and '_recombination_vector' in detail
    if cls == F28C:
        return ('run did not complete' in detail and 'IndexError' in detail and '_output' in detail) or \
            ('exception on valid input' in detail and 'range() arg 3 must not be zero' in detail)
    return False


PLACEHOLDER = ['eq', ['c', ['id']], ['c', ['id']]]  # keeps record positions ('r' operands are indices); cheap everywhere


def _deps(ops, k):
    need, todo = {k}, [k]
    while todo:
        rec = ops[todo.pop()]
        for a in _operands(rec):
            if a[0] == 'r' and a[1] not in need:
                need.add(a[1])
                todo.append(a[1])
    return need


def run_case(case):
    spec, m, t = case['group'], case['m'], case['t']
    G = _mkgroup(spec)
    ops = case['ops']
    fam = spec['fam']
    sub = {'sym': f"n={spec.get('n')}", 'qr': f"bits<={8 * ((int(spec.get('p', 0)).bit_length() + 7) // 8)}",
           'sg': f"bits<={8 * ((int(spec.get('p', 0)).bit_length() + 7) // 8)}",
           'ec': f"{spec.get('curve')}/{spec.get('coord')}", 'hc': str(spec.get('curve')), 'cl': f"Dbits<={8 * ((int(spec.get('D', 0)).bit_length() + 7) // 8)}"}[fam]
    labels = [f'm={m}', f't={t}', f"prss={case['prss']}", f'fam={fam}', f'{fam}:{sub}']
    if _sym_lifted(case):
        labels.append('sym-lifted-share-field')
    if _share_lifted(case):
        labels.append('lifted-share-field')
    for rec in ops:
        labels.append('op=' + rec[0])
        for a in _operands(rec):
            labels.append('form=' + a[0])
        if rec[0] == 'rep':
            labels.append(f"rep:{'pub' if _is_pub(rec[1]) else 'sec'}-base/{rec[2][0]}-exp")
            labels.append('nota=' + rec[3])
            if rec[2][0] == 'sf' and t >= 1 and m >= rec[2][3]:
                labels.append('lifted-exponent-field')
        if rec[0] == 'reppub':
            labels.append(f'reppub:{rec[2][0][0]}-exp/{"single" if rec[3] else len(rec[1])}')
        if rec[0] == 'ifelse':
            labels.append('cond=' + rec[1][0])
    exp = _expected(G, spec, ops)
    classes = [_known_class(case, rec) for rec in ops]
    # records whose known class makes the whole run fail (exceptions inside coroutines) run on their own
    alone = {k for k, c in enumerate(classes) if c in (F28A, F28C, F28D, F28E)}
    main = [k for k in range(len(ops)) if k not in alone]
    # 'r' operands index into case['ops']: keep positions by replacing records run elsewhere with a cheap placeholder
    known_hit = None
    if main:
        ops_main = [ops[k] if k not in alone else PLACEHOLDER for k in range(len(ops))]
        exp_main = [exp[k] if k not in alone else ('bit', 1) for k in range(len(ops))]
        status, detail, at = _run_and_check(case, ops_main, exp_main, labels)
        if status == 'inconclusive':
            return Outcome(True, inconclusive=True, labels=labels, nontrivial=False)
        if status == 'fail':
            cls = classes[at] if at is not None else None
            if cls in (F2, F28B) and _known_signature(cls, detail):
                labels.append(cls + '-class-fails')
                # the rest of the run is still judged: re-run without the records of that class
                rest = [k for k in main if classes[k] not in (F2, F28B)]
                if rest:
                    ops_r = [ops[k] if k in rest else PLACEHOLDER for k in range(len(ops))]
                    exp_r = [exp[k] if k in rest else ('bit', 1) for k in range(len(ops))]
                    s2, d2, _ = _run_and_check(case, ops_r, exp_r, labels)
                    if s2 == 'fail':
                        return Outcome(False, f'{d2}\ncase={case}', labels=labels)
                known_hit = (cls, detail)
            else:
                return Outcome(False, f'{detail}\ncase={case}', labels=labels)
        else:
            for c in classes:
                if c in (F2, F28B):
                    labels.append(c + '-class-passes')
    for k in sorted(alone):
        cls = classes[k]
        labels.append(cls + '-class')
        need = _deps(ops, k)  # earlier records whose results are operands ('r') of record k, transitively
        ops_k = [ops[j] if j in need else PLACEHOLDER for j in range(k + 1)]
        exp_k = [exp[j] if j in need else ('bit', 1) for j in range(k + 1)]
        status, detail, _ = _run_and_check(case, ops_k, exp_k, labels)
        if status == 'inconclusive':
            return Outcome(True, inconclusive=True, labels=labels, nontrivial=False)
        if status == 'fail':
            if _known_signature(cls, detail):
                known_hit = known_hit or (cls, detail)
            else:
                return Outcome(False, f'{detail}\ncase={case}', labels=labels)
    if known_hit:
        cls, detail = known_hit
        return Outcome(False, f'{_WHAT[cls]}: {detail[:1500]}\ncase={case}', labels=labels, known=cls)
    secret = any(a[0] == 's' for rec in ops for a in _operands(rec)) or \
        any(rec[0] == 'rep' and rec[2][0] != 'i' and rec[2][1] >= 0 for rec in ops) or \
        any(rec[0] == 'reppub' and any(e[1] >= 0 for e in rec[2]) for rec in ops) or \
        any(rec[0] == 'ifelse' and rec[1][0] != 'c' for rec in ops)
    return Outcome(True, labels=labels, nontrivial=t >= 1 and secret, n=1)
