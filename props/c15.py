"""C15: pseudorandom secret sharing is consistent for every key assignment.

Every party i computes its shares on its own, from its own PRF instances for the subsets it belongs to
(`prfs` maps each (m-t)-subset containing i to a PRF, exactly as `Runtime.prfs` builds it; the dict order
differs per party).  The m parties' outputs are then interpolated by an independent Lagrange oracle
(vlib/lagrange.py):

* `pseudorandom_share`: one polynomial of degree <= t whose value at 0 is the sum over all subsets S of
  the field element of prf_S(uci)[h];
* `pseudorandom_share_zero`: degree <= 2t, value 0 at 0;
* `np_pseudorandom_share`, `np_pseudorandom_share_0`: field arrays of shape (n,); the same two predicates
  are decided on them independently, and they equal the list variants entry by entry.

Known finding F15a: for t >= 2 the zero variants use the PRF outputs of a subset in opposite coefficient
order (list: Horner, first output gets X^t; array: first output gets X^1), so they are two different valid
zero-sharings.  The class is decided exactly (array output == list output on block-reversed PRF outputs).
"""
import itertools
from hypothesis import strategies as st
from vlib.boot import boot
from vlib.runner import Outcome
from vlib import fields as FS, lagrange as L

ID = 'C15'
LEVEL = 'exploration'
RULE = ('generated (field of any kind with order > m, m<=8, every t with 2t<m, one PRF per (m-t)-subset: real '
        'thresha.PRF objects with generated keys (0-16 bytes, repeated keys weighted) or arbitrary deterministic '
        'table functions with extreme outputs, bound in {1,2,2^k,order,order-1,>order}, uci bytes, batch n in 0,1,..40, '
        'per-party dict order); all m parties\' outputs interpolated: degree and secret decided by an independent '
        'Lagrange oracle, list vs array variants compared entrywise; plus enumerated cells: for every (m,t) with '
        'm<=8 over 6 (quick) / 8 (thorough) small fields every unit assignment (one subset, one output position '
        '= 1, rest 0), a basis of the output space; non-trivial = t>=1, n>=1 and at least two subsets with a '
        'nonzero PRF output; distinct by case hash / enumerated unit assignment')
ASSUMPTIONS = ['numpy 2.5.3 from the offline wheelhouse (array variants)',
               'PRF outputs are taken from the PRF objects themselves (their correctness is C17)',
               'int -> field element conversion of a PRF output is the field constructor\'s (mod p; base-p digits '
               'reduced modulo the field polynomial), which is C20\'s subject',
               'field order > m (x-coordinates 1..m distinct and nonzero), as the runtime requires']

boot(numpy=True)
from mpyc import thresha  # noqa: E402
from mpyc.numpy import np  # noqa: E402

L.selftest()
CASE_TIMEOUT = 150
MAX_M = 8


def budget(tier):
    return dict(shards=16, examples=120 if tier == 'quick' else 2500)


# ------------------------------------------------------------------ generators
@st.composite
def _bound(draw, q):
    cat = draw(st.sampled_from(['order', 'order', 'pow2', 'pow2', 'two', 'rand', 'rand', 'order-1', 'above', 'one']))
    if cat == 'order':
        return q
    if cat == 'pow2':
        return 1 << draw(st.integers(0, max(0, q.bit_length() - 1)))
    if cat == 'two':
        return 2
    if cat == 'rand':
        return draw(st.integers(1, q))
    if cat == 'order-1':
        return max(1, q - 1)
    if cat == 'above':
        return draw(st.sampled_from([q + 1, 2 * q + 1, 1 << q.bit_length(), 1 << (q.bit_length() + 9)]))
    return 1


@st.composite
def _case(draw, tier):
    spec = draw(FS.field_spec())
    if FS.order(spec) <= MAX_M and draw(st.integers(0, 3)) > 0:  # tiny fields force tiny m: keep them rare
        spec = draw(FS.field_spec())
    q = FS.order(spec)
    mmax = min(MAX_M, q - 1)
    m = draw(st.sampled_from([mmax, mmax, max(1, mmax - 1), min(3, mmax), min(5, mmax), 0])) or draw(st.integers(1, mmax))
    tmax = (m - 1) // 2
    t = draw(st.one_of(st.just(tmax), st.integers(0, tmax)))
    nsub = len(list(itertools.combinations(range(m), m - t)))
    bound = draw(_bound(q))
    heavy = q.bit_length() > 64 or nsub > 20
    n = draw(st.sampled_from([2, 1, 3, 5, 0, 8, 1] + ([] if heavy else [17, 40])))
    case = {'mode': 'gen', 'field': spec, 'm': m, 't': t, 'bound': bound, 'n': n,
            'uci': draw(st.one_of(st.binary(max_size=12), st.integers(-5, 2**40).map(
                lambda v: v.to_bytes(8, 'little', signed=True)))).hex(),
            'rot': draw(st.integers(0, 7)),
            # F15a: for t >= 2 the entrywise comparison of the two zero variants is in the known class;
            # it is requested only now and then so that the rest of the search is not drowned by it
            'zcmp': True}  # F15a is fixed in /repo (0d6e662): always compare the two zero variants
    if draw(st.booleans()):
        pool = draw(st.lists(st.binary(max_size=16), min_size=1, max_size=3))
        keys = draw(st.lists(st.one_of(st.sampled_from(pool), st.binary(min_size=16, max_size=16),
                                       st.binary(max_size=16)), min_size=nsub, max_size=nsub))
        case['kind'] = 'prf'
        case['keys'] = [k.hex() for k in keys]
    else:
        val = st.one_of(st.integers(0, bound - 1), st.sampled_from(sorted({0, bound - 1, min(1, bound - 1), bound // 2})))
        sparse = draw(st.booleans())
        row = st.lists(val, min_size=1, max_size=5)
        if sparse:  # most subsets output 0 only
            row = st.one_of(st.just([0]), st.just([0]), row)
        case['kind'] = 'tab'
        case['tab'] = draw(st.lists(row, min_size=nsub, max_size=nsub))
    return case


def strategy(tier):
    return _case(tier)


def _unit_fields(m, tier):
    """Small fields of every kind with order > m, the smallest possible ones first."""
    p = m + 1
    while not FS.R.is_prime(p):
        p += 1
    out = [{'p': p}, {'p': 257}, {'p': 2**61 - 1}]
    k = 1
    while 2 ** k <= m:
        k += 1
    out.append({'p': 2, 'f': list(FS.smallest_irreducible(2, k))})
    out.append({'p': 2, 'f': list(FS.some_irreducibles(2, 8)[0])})
    k = 1
    while 3 ** k <= m:
        k += 1
    out.append({'p': 3, 'f': list(FS.smallest_irreducible(3, max(k, 2)))})
    if tier != 'quick':
        out.append({'p': 7, 'f': list(FS.some_irreducibles(7, 2)[1])})
        out.append({'p': 2, 'f': [(FS.BIN_MODULI[64] >> i) & 1 for i in range(65)]})
    return out


def enumerate_cases(tier):
    for m in range(1, MAX_M + 1):
        for t in range((m - 1) // 2 + 1):
            for spec in _unit_fields(m, tier):
                yield {'mode': 'unit', 'field': spec, 'm': m, 't': t}


# ------------------------------------------------------------------ PRFs handed to the code under test
class TabPRF:
    """Arbitrary deterministic function: output k on input s is row[(k + sum(s)) % len(row)]."""

    def __init__(self, row):
        self.row = list(row)

    def __call__(self, s, n=None):
        off = sum(s)
        r = self.row
        if isinstance(n, tuple):
            size = 1
            for d in n:
                size *= d
            a = np.empty(size, dtype=object)
            for k in range(size):
                a[k] = r[(k + off) % len(r)]
            return a.reshape(n)
        if n is None:
            return r[off % len(r)]
        return [r[(k + off) % len(r)] for k in range(n)]


class BlockReversed:
    """The same PRF with every block of d consecutive outputs reversed (used to decide class F15a)."""

    def __init__(self, prf, d):
        self.prf, self.d = prf, d

    def __call__(self, s, n=None):
        d = self.d
        out = self.prf(s, n)
        if not isinstance(n, int):
            return out
        full = n // d * d
        return [out[h * d + (d - 1 - j)] for h in range(n // d) for j in range(d)] + out[full:]


class Fail(Exception):
    pass


# ------------------------------------------------------------------ the oracle
def _poly(rf, B, ys, what, maxdeg, secret):
    c = L.coeffs(rf, B, ys)
    d = L.degree(rf, c)
    if d > maxdeg:
        raise Fail(f'{what}: the m shares lie on a polynomial of degree {d} > {maxdeg}; shares {ys}')
    if c[0] != secret:
        raise Fail(f'{what}: secret (value at 0) is {c[0]}, expected {secret}; shares {ys}')


def _check_assignment(spec, F, m, t, make_prf, uci, n, rot, zcmp):
    """All four PRSS functions for all parties under one assignment subset -> PRF.

    make_prf(index of subset) returns a fresh PRF object.  Returns (known, stats) where known is 'F15a' when
    the only deviation is the listed one, and stats = number of subsets with a nonzero output.
    """
    rf, xs, B = L.party_basis(spec, m)
    subsets = list(itertools.combinations(range(m), m - t))
    d = t
    # expected secrets from the PRF outputs themselves
    secrets = [rf.zero] * n
    nonzero_subsets = 0
    for idx, S in enumerate(subsets):
        outs = make_prf(idx)(uci, n)
        if len(outs) != n:
            raise Fail(f'PRF returned {len(outs)} outputs for n={n}')
        nonzero_subsets += any(o != 0 for o in outs)
        for h in range(n):
            secrets[h] = rf.add(secrets[h], rf.conv(outs[h]))
    sh, sh_np, z, z_np, z_rev = [], [], [], [], []
    for i in range(m):
        own = [(idx, S) for idx, S in enumerate(subsets) if i in S]
        r = (rot * (i + 1)) % len(own)
        own = own[r:] + own[:r]
        prfs = {S: make_prf(idx) for idx, S in own}
        a = thresha.pseudorandom_share(F, m, i, prfs, uci, n)
        b = thresha.np_pseudorandom_share(F, m, i, prfs, uci, n)
        c = thresha.pseudorandom_share_zero(F, m, i, prfs, uci, n)
        e = thresha.np_pseudorandom_share_0(F, m, i, prfs, uci, n)
        for what, lst in (('pseudorandom_share', a), ('pseudorandom_share_zero', c)):
            if not isinstance(lst, list) or len(lst) != n or any(type(v) is not F for v in lst):
                raise Fail(f'{what} (party {i}): expected a list of {n} elements of {F.__name__}, got {lst!r}')
        for what, arr in (('np_pseudorandom_share', b), ('np_pseudorandom_share_0', e)):
            if type(arr) is not F.array or arr.value.shape != (n,):
                raise Fail(f'{what} (party {i}): expected {F.array.__name__} of shape ({n},), got '
                           f'{type(arr).__name__} {getattr(getattr(arr, "value", None), "shape", None)}')
        sh.append([rf.from_elem(v) for v in a])
        z.append([rf.from_elem(v) for v in c])
        sh_np.append([rf.from_elem(F(v)) for v in b.value])
        z_np.append([rf.from_elem(F(v)) for v in e.value])
        for what, arr, lst in (('np_pseudorandom_share', b, a), ('np_pseudorandom_share_0', e, c)):
            for h in range(n):
                v = arr.value[h]
                if type(v) is not type(lst[h].value):
                    raise Fail(f'{what} (party {i}): entry {h} has type {type(v).__name__}')
                if F(v).value != v:
                    raise Fail(f'{what} (party {i}): entry {h} = {v!r} is not reduced')
        if t >= 2:
            prfs_r = {S: BlockReversed(make_prf(idx), d) for idx, S in own}
            z_rev.append([rf.from_elem(v) for v in thresha.pseudorandom_share_zero(F, m, i, prfs_r, uci, n)])
    for h in range(n):
        _poly(rf, B, [sh[i][h] for i in range(m)], f'pseudorandom_share[{h}]', t, secrets[h])
        _poly(rf, B, [z[i][h] for i in range(m)], f'pseudorandom_share_zero[{h}]', 2 * t, rf.zero)
        _poly(rf, B, [sh_np[i][h] for i in range(m)], f'np_pseudorandom_share[{h}]', t, secrets[h])
        _poly(rf, B, [z_np[i][h] for i in range(m)], f'np_pseudorandom_share_0[{h}]', 2 * t, rf.zero)
    for i in range(m):
        if sh_np[i] != sh[i]:
            raise Fail(f'party {i}: np_pseudorandom_share {sh_np[i]} differs from pseudorandom_share {sh[i]}')
    known = None
    if zcmp:
        for i in range(m):
            if z_np[i] != z[i]:
                if t >= 2 and all(z_np[j] == z_rev[j] for j in range(m)):
                    known = 'F15a'
                    break
                raise Fail(f'party {i}: np_pseudorandom_share_0 {z_np[i]} differs from '
                           f'pseudorandom_share_zero {z[i]}')
    return known, nonzero_subsets


def _label(spec):
    if 'f' in spec:
        return 'binary' if spec['p'] == 2 else 'ext'
    return 'prime'


def run_case(case):
    spec, m, t = case['field'], case['m'], case['t']
    labels = [_label(spec), f'm={m}', f't={t}']
    try:
        q = FS.order(spec)
        if not (1 <= m < q and 0 <= 2 * t < m):
            return Outcome(True, 'malformed case', labels=['malformed'], nontrivial=False, skipped=True)
        F = FS.make(spec)
        nsub = len(list(itertools.combinations(range(m), m - t)))
        if case['mode'] == 'unit':
            d = max(t, 1)
            uci = b''
            cnt = 0
            for idx in range(nsub):
                for j0 in range(d):
                    def make_prf(k, idx=idx, j0=j0):
                        return TabPRF([int(j == j0) for j in range(d)] if k == idx else [0])
                    known, _ = _check_assignment(spec, F, m, t, make_prf, uci, 1, idx, t < 2)
                    cnt += 1
            return Outcome(True, labels=labels + ['unit'], n=cnt, n_nt=cnt if t >= 1 else 0, exhaustive=True)
        uci = bytes.fromhex(case['uci'])
        n, bound = case['n'], case['bound']
        if case['kind'] == 'prf':
            keys = [bytes.fromhex(k) for k in case['keys']]
            if len(keys) != nsub or bound < 1:
                return Outcome(True, 'malformed case', labels=['malformed'], nontrivial=False, skipped=True)

            def make_prf(k):
                return thresha.PRF(bytes(keys[k]), bound)
            labels.append('prf:distinct-keys' if len(set(keys)) == nsub else 'prf:repeated-keys')
        else:
            tab = case['tab']
            if len(tab) != nsub or any(not row or any(not 0 <= v < bound for v in row) for row in tab):
                return Outcome(True, 'malformed case', labels=['malformed'], nontrivial=False, skipped=True)

            def make_prf(k):
                return TabPRF(tab[k])
            labels.append('tab')
        labels.append('bound=' + ('1' if bound == 1 else '2' if bound == 2 else 'order' if bound == q else
                                  '>order' if bound > q else 'pow2' if not bound & (bound - 1) else 'other'))
        labels.append('n=' + ('0' if n == 0 else '1' if n == 1 else '2+'))
        zcmp = bool(case.get('zcmp', True))
        if t >= 2:
            labels.append('zero-variants-compared' if zcmp else 'F15a-comparison-excluded')
        known, nz = _check_assignment(spec, F, m, t, make_prf, uci, n, case['rot'], zcmp)
        if known:
            return Outcome(False, f'np_pseudorandom_share_0 differs from pseudorandom_share_zero for t={t}>=2 '
                           f'(both valid zero-sharings; array variant = list variant on block-reversed PRF '
                           f'outputs)', labels=labels, known=known)
        return Outcome(True, labels=labels, nontrivial=t >= 1 and n >= 1 and nz >= 2)
    except Fail as e:
        return Outcome(False, f'{e}\ncase={case}', labels=labels)
    except Exception:
        import traceback
        return Outcome(False, f'exception on valid input: {traceback.format_exc()[-1800:]}\ncase={case}',
                       labels=labels)
