"""C13: any t Shamir shares reveal nothing about the secret (exact, by enumeration of the dealer's randomness).

`mpyc.thresha.secrets` is replaced by an odometer that makes `random_split` / `np_random_split` run once
for EVERY possible sequence of `randbelow` answers.  For every run the call signature is checked (exactly
t calls per secret, each with argument |F|: then the runs are exactly the |F|^(t*n) equally likely dealer
choices), and for every coalition C of at most t parties the multiset of the coalition's share tuples over
all runs must be EXACTLY uniform on F^(|C|*n): every tuple occurs, each the same number of times.  This is
done for every secret (tuple) of the cell, so the coalition's view is literally identical for all of them.

One case = one cell (field, t, m, n secrets per call, variant, secrets, coalitions), enumerated completely.
The fixed grid of cells comes from `enumerate_cases`; `strategy` samples further cells (other moduli,
larger m, random secrets/coalitions), each again enumerated completely.
"""
import itertools
import traceback
from hypothesis import strategies as st
from vlib.boot import boot
from vlib.runner import Outcome
from vlib import fields as FS

ID = 'C13'
LEVEL = 'exploration'
EXHAUSTIVE_ONLY = False  # the grid cells are fixed, further cells are sampled by Hypothesis
RULE = ('one case = one cell (field, t>=1, m with t<m<|F|, n in 1..3 secrets per call, list or NumPy variant, secret '
        'tuples, coalitions of size 1..t) whose dealer randomness is enumerated COMPLETELY (all |F|^(t*n) answer '
        'sequences of secrets.randbelow; |F|^(t*n) <= 2*10^4 quick / 2*10^5 thorough). Grid: GF(3..31), GF(4..256) '
        'incl. both GF(2^8) moduli, all t, m <= 7, all coalitions of size <= t, all secrets for |F| <= 16 else a '
        'spread; sampled cells: primes <= 251, extension fields <= 256 with varying moduli, m <= 12, random secrets and '
        'coalitions. Oracle: call signature = t*n calls randbelow(|F|), and every coalition view exactly uniform '
        '(each tuple of F^(|C|*n) the same count). Every cell has t >= 1 and is non-trivial; evaluations = runs of '
        'the dealing function')
ASSUMPTIONS = ['precondition: 1 <= t < m < |F| (share coordinates 1..m are distinct and nonzero in the field)',
               'secrets.randbelow(k) is uniform on range(k) and calls are independent (the real `secrets` module); '
               'the check replaces it by an enumerator and weighs every answer sequence equally, which is exact '
               'because the signature (t*n calls, all with k = |F|) is verified on every run',
               'numpy from the offline wheelhouse (/verif/.deps) for the array variant and for counting share tuples (np.bincount)']
CASE_TIMEOUT = 900

boot(numpy=True)
from mpyc import thresha  # noqa: E402
from mpyc.numpy import np  # noqa: E402


def budget(tier):
    return dict(shards=16, examples=30 if tier == 'quick' else 200)


# ------------------------------------------------------------------ cells
def _binom(n, k):
    r = 1
    for i in range(k):
        r = r * (n - i) // (i + 1)
    return r


def _bin_spec(x):
    return {'p': 2, 'f': [(x >> i) & 1 for i in range(x.bit_length())]}


def _grid_specs():
    specs = [{'p': p} for p in (3, 5, 7, 11, 13, 17, 19, 23, 29, 31)]
    for p, n in ((2, 2), (2, 3), (3, 2), (2, 4), (5, 2), (3, 3), (2, 5), (7, 2), (2, 6), (3, 4), (2, 7), (2, 8)):
        specs.append({'p': p, 'f': list(FS.smallest_irreducible(p, n))})
    specs.append(_bin_spec(0x11b))  # the AES modulus: GF(2^8) as used by mpyc demos
    return specs


def _spread(q, full):
    if q <= full:
        return list(range(q))
    return [0, 1, q - 1, q // 2, 2, q - 2]


_US = {(False, 'list'): 12e-6, (False, 'np'): 60e-6, (True, 'list'): 170e-6, (True, 'np'): 300e-6}  # rough s/run


def enumerate_cases(tier):
    quick = tier == 'quick'
    idx = 0
    for spec in _grid_specs():
        q = FS.order(spec)
        ext = 'f' in spec  # polynomial arithmetic: ~10x slower per run
        runs_lim = (4200 if ext else 2e4) if quick else (7e4 if ext else 2e5)
        for n in (1, 2):
            for t in range(1, q - 1):
                runs = q ** (t * n)
                if runs > runs_lim:
                    break
                ms = list(range(t + 1, min(q - 1, 7) + 1))
                if quick and len(ms) > 2:
                    ms = [ms[0], ms[-1]]
                for m in ms:
                    if n == 1:
                        secs = [[s] for s in _spread(q, 8 if quick else 16)]
                        if quick and (q > 8 or ext):
                            secs = secs[:3]
                        if not quick and ext and runs > 3e4:
                            secs = secs[:4]
                    else:
                        base = _spread(q, 4 if quick else 5)[:4 if quick else 6]
                        secs = [[a, b] for a in base for b in base] if q <= 5 else \
                            [[0, 0], [0, 1], [1, 0], [q - 1, q // 2]] + ([] if quick else [[2, q - 2], [q - 1, q - 1]])
                        if quick and ext:
                            secs = secs[1:4]
                    for variant in ('list', 'np'):
                        per = max(1, int((3 if quick else 30) / (runs * _US[ext, variant])))
                        for k in range(0, len(secs), per):
                            idx += 1
                            yield {'field': spec, 't': t, 'm': m, 'n': n, 'variant': variant,
                                   'sin': ('elt', 'raw')[idx % 2] if variant == 'list' else ('array', 'ndarray')[idx % 2],
                                   'secrets': secs[k:k + per], 'coalitions': 'all'}


_POOL = None


def _pool():
    global _POOL
    if _POOL is None:
        pool = [{'p': p} for p in FS.SMALL_PRIMES if 3 <= p <= 251]
        for p, n in [(2, k) for k in range(2, 9)] + [(3, k) for k in range(2, 6)] + [(5, 2), (5, 3), (7, 2), (11, 2), (13, 2)]:
            for f in FS.some_irreducibles(p, n, 12):
                pool.append({'p': p, 'f': list(f)})
        _POOL = pool
    return _POOL


@st.composite
def _cell(draw, tier):
    lim = 5000 if tier == 'quick' else 20000
    kind = draw(st.sampled_from(['prime', 'ext', 'ext']))
    spec = draw(st.sampled_from([s for s in _pool() if ('f' in s) == (kind == 'ext')]))
    q = FS.order(spec)
    feasible = [[t, n] for n in (1, 2, 3) for t in range(1, q - 1) if q ** (t * n) <= lim]
    t, n = draw(st.sampled_from(feasible))
    m = draw(st.integers(t + 1, min(q - 1, 12)))
    el = FS.elem_strategy(spec)
    secrets = [[draw(el) for _ in range(n)] for _ in range(draw(st.integers(1, 2)))]
    coalitions = [sorted(draw(st.permutations(range(m)))[:t])]
    for _ in range(draw(st.integers(0, 6))):
        c = draw(st.integers(1, t))
        coalitions.append(sorted(draw(st.permutations(range(m)))[:c]))
    variant = draw(st.sampled_from(['list', 'np']))
    sin = draw(st.sampled_from(['elt', 'raw'] if variant == 'list' else ['array', 'ndarray']))
    return {'field': spec, 't': t, 'm': m, 'n': n, 'variant': variant, 'sin': sin, 'secrets': secrets,
            'coalitions': coalitions}


def strategy(tier):
    return _cell(tier)


# ------------------------------------------------------------------ enumeration of the dealer's randomness
class Fail(Exception):
    pass


class _TooLarge(Exception):
    """A non-standard dealer whose randomness space is too large to enumerate in this cell: cell skipped."""


class _Odometer:
    """Stand-in for `secrets`: replays a path of (answer, bound) pairs, extends it with answer 0, and
    `advance()` moves to the next path in lexicographic order.  Makes no assumption on the number of calls
    or their bounds; the checker verifies the signature of every run."""

    def __init__(self):
        self.path = []
        self.pos = 0

    def start(self):
        self.pos = 0

    def randbelow(self, k):
        if self.pos < len(self.path):
            a, b = self.path[self.pos]
            if b != k:
                raise Fail(f'call #{self.pos} of secrets.randbelow has bound {k} but had bound {b} on the previous run '
                           f'with the same earlier answers')
        else:
            if k < 1:
                raise Fail(f'secrets.randbelow called with {k}')
            a = 0
            self.path.append([0, k])
        self.pos += 1
        return a

    # the other entry points of the `secrets` module, modelled through randbelow so that a dealer which draws its
    # coefficients differently is still enumerated exactly (each path then carries the weight prod(1/bound))
    def randbits(self, k):
        return self.randbelow(1 << k) if k else 0

    def choice(self, seq):
        return seq[self.randbelow(len(seq))]

    def token_bytes(self, n=32):
        return self.randbelow(256 ** n).to_bytes(n, 'little') if n else b''

    def signature(self):
        return [b for _, b in self.path[:self.pos]]

    def advance(self):
        del self.path[self.pos:]
        while self.path and self.path[-1][0] + 1 >= self.path[-1][1]:
            self.path.pop()
        if not self.path:
            return False
        self.path[-1][0] += 1
        return True


def _deal(F, q, variant, sin, sec, t, m, odo):
    """One run of the dealing function; returns the m*n share values as canonical ints (party-major)."""
    n = len(sec)
    if variant == 'list':
        s = [F(x) for x in sec] if sin == 'elt' else [F(x).value for x in sec]
        f = thresha.random_split
    else:
        a = F.array(list(sec))
        s = a if sin == 'array' else a.value
        f = thresha.np_random_split
    odo.start()
    shares = f(F, s, t, m)
    if len(shares) != m or any(len(r) != n for r in shares):
        raise Fail(f'{f.__name__}: result is not an m x n matrix')
    out = []
    for row in shares:
        for v in row:
            if isinstance(v, F):
                v = v.value
            r = int(v)
            if not 0 <= r < q:
                raise Fail(f'{f.__name__}: share {v!r} is not a reduced field value')
            out.append(r)
    return tuple(out)


def _check_cell(case):
    spec, t, m, n = case['field'], case['t'], case['m'], case['n']
    variant, sin = case['variant'], case['sin']
    F = FS.make(spec)
    q = FS.order(spec)
    if not (1 <= t < m < q):
        raise AssertionError('bad cell')
    if case['coalitions'] == 'all':
        coalitions = [list(c) for k in range(1, t + 1) for c in itertools.combinations(range(m), k)]
    else:
        coalitions = case['coalitions']
    want_sig = [q] * (t * n)
    runs_total = 0
    views = {}
    for sec in case['secrets']:
        odo = _Odometer()
        old = thresha.secrets
        thresha.secrets = odo
        results = []
        weights = []
        nonstandard = False
        try:
            while True:
                res = _deal(F, q, variant, sin, sec, t, m, odo)
                sig = odo.signature()
                if sig != want_sig:
                    # not the documented way of drawing (t calls of randbelow(|F|) per secret): still enumerate the
                    # dealer's randomness completely, each path weighted by the product of 1/bound, and judge only
                    # what the statement says (exact uniformity of every coalition's view)
                    nonstandard = True
                    space = 1
                    for b in sig:
                        space *= b
                    if space > 300000:
                        raise _TooLarge(f'{len(sig)} draws with bounds {sig[:6]} span {space} outcomes')
                weights.append(sig)
                results.append(res)
                if not odo.advance():
                    break
        finally:
            thresha.secrets = old
        if nonstandard:
            from fractions import Fraction
            wts = []
            for sg in weights:
                w = Fraction(1)
                for b in sg:
                    w /= b
                wts.append(w)
            if sum(wts) != 1:
                raise RuntimeError('enumeration of a non-standard dealer did not cover probability 1')
            for C in coalitions:
                cols = [i * n + h for i in C for h in range(n)]
                dist = {}
                for res, w in zip(results, wts):
                    key = tuple(res[c] for c in cols)
                    dist[key] = dist.get(key, 0) + w
                size = q ** len(cols)
                if len(dist) != size or any(v != Fraction(1, size) for v in dist.values()):
                    raise Fail(f'the view of coalition {[i + 1 for i in C]} (parties) on secret(s) {sec} is not uniform '
                               f'({len(dist)} of {size} share tuples occur; dealer draws randomness with bounds '
                               f'{weights[0][:8]}, t={t}, m={m}, variant {variant})')
                key = ('w',) + tuple(C)
                if key in views and views[key] != dist:
                    raise Fail(f'the view of coalition {[i + 1 for i in C]} differs between secrets')
                views[key] = dist
            runs_total += len(results)
            continue
        if len(results) != q ** (t * n):
            raise Fail(f'enumeration produced {len(results)} runs, expected {q ** (t * n)}')
        runs_total += len(results)
        table = np.array(results, dtype=np.int64)  # runs x (m*n) canonical share values, all < q
        for C in coalitions:
            cols = [i * n + h for i in C for h in range(n)]
            size = q ** len(cols)  # <= q^(t*n) = number of runs
            keys = table[:, cols] @ np.array([q ** j for j in range(len(cols))], dtype=np.int64)
            cnt = np.bincount(keys, minlength=size)
            want = len(results) // size
            if len(cnt) != size or int(cnt.min()) != want or int(cnt.max()) != want:
                k = int(cnt.argmax())
                tup = [(k // q ** j) % q for j in range(len(cols))]
                raise Fail(f'the view of coalition {[i + 1 for i in C]} (parties) on secret(s) {sec} is not uniform: '
                           f'{int((cnt > 0).sum())} of {size} possible share tuples occur over the {len(results)} equally '
                           f'likely dealer choices; counts range {int(cnt.min())}..{int(cnt.max())}, each must be {want}; '
                           f'e.g. tuple {tup} occurs {int(cnt.max())} times (t={t}, m={m}, variant {variant})')
            # identical across secrets (implied by exact uniformity; kept as an explicit cross-check)
            key = tuple(C)
            if key in views and not np.array_equal(views[key], cnt):
                raise Fail(f'the view of coalition {[i + 1 for i in C]} differs between secrets')
            views[key] = cnt
    return runs_total, len(coalitions)


def run_case(case):
    spec = case['field']
    q = FS.order(spec)
    labels = ['prime' if 'f' not in spec else ('binary' if spec['p'] == 2 else 'ext'), case['variant'], 'sin:' + case['sin'],
              f"n={case['n']}", f"t={case['t']}" if case['t'] < 4 else 't>=4', 'grid' if case['coalitions'] == 'all' else 'sampled',
              'q<=16' if q <= 16 else ('q<=64' if q <= 64 else 'q>64'), 'm>7' if case['m'] > 7 else 'm<=7']
    saved = thresha.secrets
    try:
        runs, _ = _check_cell(case)
    except _TooLarge:
        return Outcome(True, skipped=True, nontrivial=False, labels=labels + ['dealer-randomness-space-too-large'])
    except Fail as e:
        return Outcome(False, f'{spec}: {e}\ncase={str(case)[:1200]}', labels=labels)
    except Exception:
        return Outcome(False, f'exception on valid input: {traceback.format_exc()[-1800:]}\ncase={str(case)[:1200]}',
                       labels=labels)
    finally:
        thresha.secrets = saved
    return Outcome(True, labels=labels, n=runs, n_nt=runs, exhaustive=True)
