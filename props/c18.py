"""C18: values opened inside protocols are statistically masked.

Statistical two-sample oracle over simulated runs.  A *scenario* fixes a secure type, one
protocol (comparison, zero test, truncation, lsb, modulo, bit decomposition, conversion, public
zero test, reciprocal, ...) and two secret inputs A, B at opposite ends of the range (differing
in every bit) that produce the same public outputs (the secret result is never opened).  The
secret is dealt by party 0; the coalition is a set of <= t other parties.  For each secret the
scenario is run N times with independent seeds and the coalition's *view* is recorded:
  * every value opened by an internal `Runtime.output` call (field elements, as integers),
  * every frame a coalition member receives (source, position on the connection, payload).
Runs are grouped by view shape; shape frequencies and, per view coordinate, three projections
(value / range, low 8 bits, parity) are compared between A and B with the two-sample
Kolmogorov-Smirnov distance (computed tie-safe on the merged distinct values).  The threshold
comes from the DKW inequality with a union bound over all tests of the case at alpha = 1e-9,
so a false alarm on truly identical distributions has probability < 1e-9 per case (the real
distance 2^-k, k = 30, is far below the resolution).  Detects gross leaks (distance >~ 0.45
quick, >~ 0.14 thorough), not small biases; evidence, not proof.
"""
import math
import os
import collections
from vlib import sim as simmod
from vlib.runner import Outcome

ID = 'C18'
LEVEL = 'exploration'
RULE = ('enumerated scenarios (type x protocol x pair of opposite-extreme secrets with equal public outputs) x '
        '(m,t,PRSS,coalition) x N independently seeded runs per secret (quick N=300, thorough N=3000); oracle = '
        'two-sample KS distance per view coordinate and projection (value/range, low 8 bits, parity) and per view '
        'shape frequency, against a DKW threshold with union bound at alpha=1e-9; evaluations = simulated runs; '
        'non-trivial = a (scenario, configuration) cell with >= 1 opened value in the coalition view and secrets '
        'differing in the bits the mask hides; distinct cells counted')
ASSUMPTIONS = ['statistical oracle: only distribution shifts larger than the stated KS threshold are detected',
               'the secret is dealt by party 0, coalitions are subsets of the other parties of size <= t',
               'fast canonical schedule (the view is then a fixed-order vector); sec_param k=30']

ALPHA = 1e-9
CASE_TIMEOUT = 3000


TIMEOUT_INCONCLUSIVE = True  # hangs are decided by quiescence in the simulator, not by the wall clock


def budget(tier):
    return dict(shards=16, examples=0)


# (type, op): secrets are chosen per type
INT_OPS = ['lt0', 'sgn', 'eq0', 'lsb', 'mod3', 'mod8', 'floordiv3', 'rshift2', 'abs', 'to_bits', 'izp', 'conv_int',
           'conv_fld', 'mul', 'max0']
FXP_OPS = ['fmul', 'flt0', 'fdiv', 'frec', 'ftrunc', 'fschur']
FLD_OPS = ['recip', 'feq0', 'fizp', 'fto_bits']


def enumerate_cases(tier):
    n = 300 if tier == 'quick' else 3000
    cells = []
    k = 0
    for typ, ops in ((['int', 8], INT_OPS), (['fxp', 16, 8], FXP_OPS), (['fld', 101], FLD_OPS[:3]),
                     (['fld', 2305843009213693951], FLD_OPS[:3]), (['fld2', 8], ['recip', 'feq0', 'fizp', 'fto_bits']),
                     (['fld', 257], ['fto_bits'])):
        for op in ops:
            k += 1
            cells.append(dict(typ=typ, op=op, m=3, t=1, prss=bool(k % 2), coalition=[1 + (k // 2) % 2], n=n, seed=k))
    # wide types (l > sec_param): masks must grow with l -- a mask of k bits only hides l <= k
    heavy = tier == 'thorough'   # the expensive wide-type protocols only in the thorough tier
    for typ, ops in ((['int', 64], ['lt0', 'eq0', 'lsb', 'mod3', 'mod8', 'floordiv3', 'rshift2', 'to_bits8', 'izp',
                                    'conv_int', 'max0'] + (['sgn', 'to_bits', 'conv_fld', 'abs'] if heavy else [])),
                     (['fxp', 64, 32], ['fmul', 'flt0', 'ftrunc'] + (['fdiv', 'frec'] if heavy else []))):
        for op in ops:
            k += 1
            cells.append(dict(typ=typ, op=op, m=3, t=1, prss=bool(k % 2), coalition=[1 + (k // 2) % 2], n=n, seed=k))
    if tier == 'thorough':
        extra = []
        for c in cells:
            extra.append(dict(c, prss=not c['prss'], seed=c['seed'] + 1000))
        for typ, ops in ((['int', 16], ['lt0', 'eq0', 'lsb', 'mod3', 'to_bits', 'izp']), (['fxp', 32, 16], ['fmul', 'flt0', 'fdiv'])):
            for op in ops:
                k += 1
                extra.append(dict(typ=typ, op=op, m=5, t=2, prss=bool(k % 2), coalition=[1, 3], n=600, seed=k + 2000))
        cells += extra
    base = int(os.environ.get('VERIF_SEED', '1') or '1')
    only = os.environ.get('VERIF_C18_OPS')  # development aid: restrict to some protocols
    for c in cells:
        if only and c['op'] not in only.split(','):
            continue
        if c['op'] == 'fschur':
            c = dict(c, n=2 * c['n'])   # the adjacent-pair statistic separates by 0.5 at best: more runs for this cell
        yield dict(c, seed=c['seed'] + 100_000 * base)


def secrets_for(typ):
    k = typ[0]
    if k == 'int':
        l = typ[1]
        return -(1 << (l - 1)), (1 << (l - 1)) - 1
    if k == 'fxp':
        l = typ[1]
        # scaled integers; keep |x| <= 2^(l-f-2) so that products/quotients by small constants stay in range
        return -(1 << (l - 3)), (1 << (l - 3)) - 1
    if k == 'fld':
        return 1, typ[1] - 1
    return 1, (1 << typ[1]) - 1


def make_prog(typ, op, secret):
    async def prog(mpc, pid):
        k = typ[0]
        if k == 'int':
            stype = mpc.SecInt(typ[1])
            a = mpc.input(stype(secret if pid == 0 else None), senders=0)
        elif k == 'fxp':
            stype = mpc.SecFxp(typ[1], typ[2])
            a = mpc.input(stype(secret / 2 ** typ[2] if pid == 0 else None, integral=False), senders=0)
        elif k == 'fld':
            stype = mpc.SecFld(typ[1])
            a = mpc.input(stype(secret if pid == 0 else None), senders=0)
        else:
            stype = mpc.SecFld(2 ** typ[1])
            a = mpc.input(stype(secret if pid == 0 else None), senders=0)
        await mpc.gather(a)
        pub = None
        if op == 'lt0':
            z = a < 0
        elif op == 'sgn':
            z = mpc.sgn(a)
        elif op in ('eq0', 'feq0'):
            z = a == 0
        elif op == 'lsb':
            z = mpc.lsb(a)
        elif op == 'mod3':
            z = a % 3
        elif op == 'mod8':
            z = a % 8
        elif op == 'floordiv3':
            z = a // 3
        elif op == 'rshift2':
            z = a >> 2
        elif op == 'abs':
            z = abs(a)
        elif op == 'to_bits8':
            z = mpc.to_bits(a, 8)
        elif op in ('to_bits', 'fto_bits'):
            z = mpc.to_bits(a)
        elif op in ('izp', 'fizp'):
            pub = bool(await mpc.is_zero_public(a))
            z = a
        elif op == 'conv_int':
            z = mpc.convert(a, mpc.SecInt(typ[1] + 8))
        elif op == 'conv_fld':
            z = mpc.convert(a, mpc.SecFld(2 ** 61 - 1))
        elif op == 'mul':
            z = a * a - a * a
        elif op == 'max0':
            z = mpc.max(a, stype(0))
        elif op == 'fmul':
            z = a * stype(0.75, integral=False)
        elif op == 'flt0':
            z = a < 0
        elif op == 'fdiv':
            z = stype(1.5, integral=False) / a
        elif op == 'frec':
            z = 1 / a
        elif op == 'ftrunc':
            z = mpc.trunc(a, f=3)
        elif op == 'fschur':
            # one truncation over a LIST: the masks of the elements must be independent of each other
            xs = [a, a + stype(0.25, integral=False), a - stype(1.5, integral=False)] if secret < 0 else \
                [a, a - stype(0.75, integral=False), a - stype(0.25, integral=False)]
            u = 2.0 ** -typ[2]   # odd raw factors, so that the low bits of the products depend on the secrets
            z = mpc.schur_prod(xs, [stype(0.75 + u, integral=False), stype(1.25 + u, integral=False),
                                    stype(0.5 + 3 * u, integral=False)])
        elif op == 'recip':
            z = 1 / a
        else:
            raise ValueError(op)
        await mpc.gather(z)
        return pub

    return prog


class _OutputTap:
    """Records, per party, the values opened by internal Runtime.output calls (non-secure-object arguments)."""

    def __init__(self, sim):
        self.sim = sim
        self.opened = {i: [] for i in range(sim.m)}
        rtc = simmod.M['runtime'].Runtime
        self._rtc = rtc
        self._orig = orig = rtc.output
        SecureObject = simmod.M['asyncoro'].SecureObject
        tap = self

        def output(rt, x, *args, **kw):
            r = orig(rt, x, *args, **kw)
            x0 = x[0] if isinstance(x, list) and x else x
            if not isinstance(x0, SecureObject) and hasattr(r, 'add_done_callback'):
                slot = []
                tap.opened[rt.pid].append(slot)

                def cb(fut, slot=slot):
                    if fut.cancelled() or fut.exception() is not None:
                        return
                    v = fut.result()
                    vs = v if isinstance(v, list) else [v]
                    for e in vs:
                        if e is None:
                            slot.append(None)
                        else:
                            slot.append((int(e), int(type(e).order)))

                r.add_done_callback(cb)
            return r

        rtc.output = output

    def close(self):
        self._rtc.output = self._orig


def one_view(case, secret, seed):
    typ, op = case['typ'], case['op']
    sim = simmod.Sim(case['m'], case['t'], prss=case['prss'], seed=seed, schedule={'mode': 'fast'})
    tap = _OutputTap(sim)
    try:
        res = sim.run_programs(make_prog(typ, op, secret), shutdown=False)
    finally:
        tap.close()
        sim.close()
    if not res.all_done:
        return None, res
    view = []
    for j in case['coalition']:
        for ci, slot in enumerate(tap.opened[j]):
            for ei, e in enumerate(slot):
                if e is not None:
                    v, q = e
                    view.append((('o', j, ci, ei), v, q))
        for i in range(case['m']):
            if i == j:
                continue
            _, frames, _ = sim.frames(i, j)
            for f in frames:
                n = len(f.payload)
                view.append((('f', i, j, f.seq, n), int.from_bytes(f.payload, 'little'), 1 << (8 * max(n, 1))))
    return (view, res.values[0]), res


def ks(xs, ys):
    """Two-sample KS distance, tie-safe."""
    ca, cb = collections.Counter(xs), collections.Counter(ys)
    na, nb = len(xs), len(ys)
    fa = fb = 0
    d = 0.0
    for v in sorted(set(ca) | set(cb)):
        fa += ca.get(v, 0)
        fb += cb.get(v, 0)
        d = max(d, abs(fa / na - fb / nb))
    return d


def run_case(case):
    typ, op, n = case['typ'], case['op'], case['n']
    labels = ['type=' + typ[0], 'op=' + op, f"m={case['m']}", f"prss={case['prss']}"]
    sa, sb = secrets_for(typ)
    views = {0: [], 1: []}
    pubs = set()
    runs = 0
    for which, secret in ((0, sa), (1, sb)):
        for r in range(n):
            seed = (case['seed'] * 2 + which) * 1_000_003 + r
            vw, res = one_view(case, secret, seed)
            runs += 1
            if vw is None:
                if res.inconclusive:
                    return Outcome(True, inconclusive=True, labels=labels, nontrivial=False, n=runs)
                return Outcome(False, f'run did not complete (secret {secret}, seed {seed}): {res.describe()}\ncase={case}',
                               labels=labels, n=runs)
            views[which].append(vw[0])
            pubs.add(vw[1])
    if len(pubs) != 1:
        return Outcome(False, f'harness: the two secrets gave different public outputs {pubs}', labels=labels, n=runs)
    # group by shape
    groups = {0: collections.defaultdict(list), 1: collections.defaultdict(list)}
    for w in (0, 1):
        for vw in views[w]:
            groups[w][tuple(k for k, _, _ in vw)].append(vw)
    shapes = set(groups[0]) | set(groups[1])
    ncoord = max((len(s) for s in shapes), default=0)
    ntests = len(shapes) + 5 * sum(len(s) for s in shapes)   # 3 marginal + 2 adjacent-pair projections
    ntests = max(ntests, 1)

    def e(nn):
        return math.sqrt(math.log(4 * ntests / ALPHA) / (2 * nn))

    worst = (0.0, None)
    # shape frequencies
    for s in shapes:
        pa, pb = len(groups[0].get(s, [])) / n, len(groups[1].get(s, [])) / n
        thr = 2 * e(n)
        if abs(pa - pb) > thr:
            return Outcome(False, f'view shape frequency differs between secrets {sa} and {sb}: {pa:.3f} vs {pb:.3f} '
                           f'(threshold {thr:.3f}); shape has {len(s)} coordinates, first {s[:3]}\ncase={case}',
                           labels=labels, n=runs)
    opened = 0
    for s in shapes:
        ga, gb = groups[0].get(s, []), groups[1].get(s, [])
        if len(ga) < 60 or len(gb) < 60:
            continue
        thr = e(len(ga)) + e(len(gb))
        for ci, key in enumerate(s):
            if key[0] == 'o':
                opened += 1
            for pname, proj in (('value/range', lambda v, q: v / q), ('low 8 bits', lambda v, q: v & 255),
                                ('parity', lambda v, q: v & 1)):
                xa = [proj(vw[ci][1], vw[ci][2]) for vw in ga]
                xb = [proj(vw[ci][1], vw[ci][2]) for vw in gb]
                d = ks(xa, xb)
                if d > worst[0]:
                    worst = (d, (key, pname))
                if d > thr:
                    what = 'value opened by output() at party %d (call #%d, element %d)' % key[1:] if key[0] == 'o' \
                        else 'frame received by party %d from party %d (#%d on that connection, %d bytes)' % (key[2], key[1], key[3], key[4])
                    return Outcome(False, f'coalition view depends on the secret: {what}, projection "{pname}": KS distance '
                                   f'{d:.3f} > threshold {thr:.3f} between secrets {sa} and {sb} over {len(ga)}+{len(gb)} runs '
                                   f'({typ} {op})\ncase={case}', labels=labels, n=runs)
    # adjacent values of one opening (e.g. a truncation over a list): their masks must be independent -- a mask
    # reused (or reused shifted by one bit) makes v[j+1] - (v[j] >> s) depend on the secrets alone
    for s in shapes:
        ga, gb = groups[0].get(s, []), groups[1].get(s, [])
        if len(ga) < 60 or len(gb) < 60:
            continue
        thr = e(len(ga)) + e(len(gb))
        for ci in range(len(s) - 1):
            k0, k1 = s[ci], s[ci + 1]
            if not (k0[0] == 'o' and k1[0] == 'o' and k0[1:3] == k1[1:3] and k1[3] == k0[3] + 1):
                continue
            for sh in (0, 1):
                xa = [(vw[ci + 1][1] - (vw[ci][1] >> sh)) & 3 for vw in ga]
                xb = [(vw[ci + 1][1] - (vw[ci][1] >> sh)) & 3 for vw in gb]
                d = ks(xa, xb)
                if d > thr:
                    return Outcome(False, f'coalition view depends on the secret: adjacent values #{k0[3]}, #{k1[3]} opened '
                                   f'by one output() call at party {k0[1]} (call #{k0[2]}): (v[j+1] - (v[j] >> {sh})) mod 4 '
                                   f'has KS distance {d:.3f} > threshold {thr:.3f} between secrets {sa} and {sb} '
                                   f'({typ} {op}): the masks of the two values are not independent\ncase={case}',
                                   labels=labels, n=runs)
    labels.append(f'coords={ncoord // 10 * 10}+')
    labels.append('worstD=%.2f' % (math.floor(worst[0] * 20) / 20))
    return Outcome(True, labels=labels, nontrivial=opened > 0, n=runs)
