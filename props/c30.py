"""C30: bit-level oblivious building blocks are correct for all inputs.

Operations (all real code, run inside the in-process m-party simulator; inputs are genuine sharings dealt by a
generated sender with `mpc.input`, results are opened with `mpc.output` and compared at every party):

* `add_bits(x, y)`        -> the len(x) bits of (X + Y) mod 2^len(x)   (y secret-shared or public bits)
* `to_bits(a[, l])`       -> the l least significant two's-complement bits of a (of the scaled integer for
                             fixed point -- that is what the caller `unit_vector` relies on)
* `from_bits(x)`          -> sum x_i 2^i ; `from_bits(to_bits(a, l)) = a mod 2^l`
* `trailing_zeros(a, l)`  -> l values that equal the bits of a up to and including the least significant 1
                             (all l bits if there is no 1); the rest is unspecified (docstring) and unchecked
* `gcp2(a, b[, l])`       -> 2^min(tz(a), tz(b)) for (a, b) != (0, 0), |a|,|b| < 2^l
* `unit_vector(a, n)`     -> [0]*a + [1] + [0]*(n-1-a) for 0 <= a < n; for a = n the documented
                             [1] + [0]*(n-1)
* `find(x, a, bits, e, f, cs_f)` -> f(ix), ix = index of the first occurrence of a in x, or E when absent
                             (E = len(x) by default, an int, or an expression in len(x)); e=None -> (nf, f(ix))
                             with nf = 1 iff absent (f(ix) unconstrained when absent: 'raw' output);
                             f omitted = identity; cs_f(b, i) = f(i + b) given instead of f.

Known findings: F11 (find([], 1) with the public-int fast path raises IndexError), F30a (find with BOTH f and
cs_f given crashes: the branch is an unfinished TODO).
"""
from hypothesis import strategies as st
from vlib.boot import boot
from vlib.runner import Outcome

boot(numpy=False)
from vlib import sim as simmod, progs  # noqa: E402

ID = 'C30'
LEVEL = 'exploration'
RULE = ('exhaustive cells at m=1: add_bits for all pairs of bit vectors of length <= 6 (quick) / 8 (thorough), '
        'secret and public second operand; to_bits(a, l\'), from_bits, round trip and trailing_zeros(a, l\') for '
        'every value of SecInt(l), l <= 7 / 8 and every l\' <= l; gcp2 on all pairs of SecInt(l), l <= 4 / 6, and all '
        'pairs with explicit l; unit_vector for all 0 <= a <= n <= 17 / 33; find for all bit vectors of length <= 5 / 8 '
        'x a in {0,1} x public/secret a x every e mode (default, -1, 0, len(x)+3, \'len(x)-1\', \'2*len(x)+1\', None) x '
        'every f mode (none, int/tuple/list-valued f, int/tuple/list-valued cs_f) and bits=False over all vectors '
        'of length <= 3 / 4 over 3 values; enumerated structured cells (every value of the small types, extremes, '
        '+-2^j, +-2^j+-1, bit patterns and pseudo-random values of the large ones) for prime SecFld up to 2^61-1, '
        'GF(2^k) up to k=32, SecFxp and SecInt(16/32/64); plus generated cases (m,t,PRSS) with m<=7 weighted to m>=3, t>=1: 1-4 '
        'operation records over SecInt(l<=64), prime SecFld, GF(2^k), SecFxp with vectors up to length 20, '
        'inputs dealt by a generated sender; oracle = plain Python reference on ints; non-trivial = result depends '
        'on a carry / a present element / a nonzero value (per op, see labels) and, for generated cases, m>=3 and '
        't>=1; distinct by case hash / enumerated input')
ASSUMPTIONS = ['sec_param k=30 (statistical masking in to_bits/trailing_zeros; comparisons in find(bits=False))',
               'find(bits=False) on SecInt: values generated with differences inside l bits (precondition of !=)',
               'gcp2/trailing_zeros: SecInt only (fixed point is a TODO in the source); gcp2(0, 0) is outside the '
               'domain (no greatest power) and only required not to crash',
               'to_bits: l <= bit_length of the type; prime fields with p > m (lifting of small fields is C04)',
               'f / cs_f are integer-valued (or tuples/lists of integers) and defined at E']
CASE_TIMEOUT = 300


def budget(tier):
    return dict(shards=16, examples=50 if tier == 'quick' else 900)


# ------------------------------------------------------------------------------------------ f / cs_f modes
# name -> (impl kwargs factory (n = len(x)), reference f(i, n) -> int | list, needs E >= 0)
def _impl_f(name, n, shl=True):
    return {
        'none': {},
        'f_lin': dict(f=lambda i: 3 * i + 1),
        'f_pow': dict(f=lambda i: 2 ** i),
        'f_sq': dict(f=lambda i: i * i - 2),
        'f_tup': dict(f=lambda i: (i, 2 ** i)),
        'f_list': dict(f=lambda i: [n - i, i * i]),
        'cs_lin': dict(cs_f=lambda b, i: i + b),
        'cs_pow': dict(cs_f=(lambda b, i: (b + 1) << i) if shl else (lambda b, i: (b + 1) * 2 ** i)),
        'cs_nmi': dict(cs_f=lambda b, i: n - i - b),
        'cs_tup': dict(cs_f=lambda b, i: (i + b, (b + 1) * 2 ** i)),
        'cs_list': dict(cs_f=lambda b, i: [n - i - b, 3 * (i + b)]),
        'both': dict(f=lambda i: 2 * i + 5, cs_f=lambda b, i: 2 * (i + b) + 5),
    }[name]


def _ref_f(name, i, n):
    if name in ('none', 'cs_lin'):
        return i
    if name == 'f_lin':
        return 3 * i + 1
    if name in ('f_pow', 'cs_pow'):
        return 1 << i
    if name == 'f_sq':
        return i * i - 2
    if name in ('f_tup', 'cs_tup'):
        return [i, 1 << i]
    if name == 'f_list':
        return [n - i, i * i]
    if name == 'cs_nmi':
        return n - i
    if name == 'cs_list':
        return [n - i, 3 * i]
    if name == 'both':
        return 2 * i + 5
    raise KeyError(name)


F_MODES = ['none', 'f_lin', 'f_pow', 'f_sq', 'f_tup', 'f_list', 'cs_lin', 'cs_pow', 'cs_nmi', 'cs_tup', 'cs_list']
NEEDS_NONNEG = {'f_pow', 'f_tup', 'cs_pow', 'cs_tup'}
E_EXPR = {'len(x)-1': lambda n: n - 1, '2*len(x)+1': lambda n: 2 * n + 1, 'len(x)': lambda n: n}


def _e_value(emode, n):
    """Public index E used when a is absent (None for the raw mode)."""
    if emode == 'def':
        return n
    if emode == 'none':
        return None
    if emode[0] == 'int':
        return emode[1]
    return E_EXPR[emode[1]](n)


def _e_modes(n):
    return ['def', ['int', -1], ['int', 0], ['int', n + 3], ['str', 'len(x)-1'], ['str', '2*len(x)+1'], 'none']


def _find_valid(xs, fmode, emode):
    E = _e_value(emode, len(xs))
    return not (fmode in NEEDS_NONNEG and E is not None and E < 0)


def _is_f11(op):
    """F11 class: find on an empty list with the public int a = 1 in bits mode."""
    return op[0] == 'find' and op[1] == [] and op[4] is True and op[3] == 'int' and op[2] == 1


def _is_f30a(op):
    return op[0] == 'find' and op[6] == 'both'


# ------------------------------------------------------------------------------------------ types
def _mk_type(mpc, ts):
    k = ts['kind']
    if k == 'int':
        return mpc.SecInt(ts['l'])
    if k == 'fld':
        return mpc.SecFld(ts['p'])
    if k == 'fld2':
        return mpc.SecFld(2 ** ts['k'])
    return mpc.SecFxp(ts['l'], ts['f'])


def _type_bits(ts):
    k = ts['kind']
    if k == 'fld':
        return ts['p'].bit_length()
    if k == 'fld2':
        return ts['k']
    return ts['l']


def _enc(ts, v):
    """Integer v as it is read back from an opened value of type ts (see _open)."""
    k = ts['kind']
    if k == 'fld':
        return v % ts['p']
    if k == 'fxp':
        return v << ts['f']
    return v


def _sec(st_, ts, v, mine, integral=True):
    """Secure object for the integer v (for fxp: v is the SCALED integer when integral is False)."""
    if ts['kind'] == 'fxp':
        if integral:
            return st_(v if mine else None, integral=True)
        return st_(v / (1 << ts['f']) if mine else None, integral=False)
    return st_(v if mine else None)


# ------------------------------------------------------------------------------------------ party program
def _leaves(r, acc):
    if isinstance(r, (list, tuple)):
        return [_leaves(e, acc) for e in r]
    acc.append(r)
    return len(acc) - 1


def _rebuild(shape, vals):
    if isinstance(shape, list):
        return [_rebuild(s, vals) for s in shape]
    return vals[shape]


async def _open(mpc, ts, r):
    """Open a nested result; plain Python numbers (results on empty lists) pass through."""
    if hasattr(r, '__await__') and not isinstance(r, mpc.SecureObject):
        r = await r
    acc = []
    shape = _leaves(r, acc)
    sec_ix = [i for i, v in enumerate(acc) if isinstance(v, mpc.SecureObject)]
    vals = list(acc)
    for i, v in enumerate(acc):
        if i not in sec_ix:
            if hasattr(v, '__await__'):
                v = await v
            if isinstance(v, (int, bool)):
                vals[i] = _enc(ts, int(v)) if ts['kind'] != 'fld2' else int(v)
            else:
                vals[i] = ['?', repr(v)]
    if sec_ix:
        kw = dict(raw=True) if ts['kind'] == 'fxp' else {}
        outs = await mpc.output([acc[i] for i in sec_ix], **kw)
        for i, o in zip(sec_ix, outs):
            if ts['kind'] == 'int':
                vals[i] = int(o)
            elif ts['kind'] == 'fld':
                vals[i] = int(o.value) % ts['p']
            elif ts['kind'] == 'fld2':
                vals[i] = int(o)
            else:
                vals[i] = int(o)
    return _rebuild(shape, vals)


def _call(mpc, pid, ts, st_, op, sender):
    """Build the inputs and call the operation under test; returns its (unopened) result."""
    mine = pid == sender

    def deal(vs, integral=True):
        if not vs:
            return []
        return mpc.input([_sec(st_, ts, v, mine, integral) for v in vs], senders=sender)

    kind = op[0]
    if kind == 'add_bits':
        _, xb, yb, ymode = op
        return mpc.add_bits(deal(xb), deal(yb) if ymode == 'sec' else list(yb))
    if kind in ('to_bits', 'roundtrip'):
        _, a, l, integral = op
        a = deal([a], integral)[0]
        bits = mpc.to_bits(a) if l is None else mpc.to_bits(a, l)
        return bits if kind == 'to_bits' else mpc.from_bits(bits)
    if kind == 'from_bits':
        x = deal(op[1])
        r = mpc.from_bits(x)
        if len(op) > 2 and op[2]:
            x.reverse()  # the caller reuses its list: the result must be that of the list as passed
            x[:] = x[:1] * len(x)
        return r
    if kind == 'tz':
        _, a, l = op
        a = deal([a])[0]
        return mpc.trailing_zeros(a) if l is None else mpc.trailing_zeros(a, l)
    if kind == 'gcp2':
        _, a, b, l = op
        a, b = deal([a, b])
        return mpc.gcp2(a, b) if l is None else mpc.gcp2(a, b, l=l)
    if kind == 'uv':
        _, a, n = op
        return mpc.unit_vector(deal([a])[0], n)
    if kind == 'find':
        _, xs, a, aform, bits, emode, fmode = op
        x = deal(xs)
        a = deal([a])[0] if aform == 'sec' else a
        kw = dict(_impl_f(fmode, len(xs), shl=ts['kind'] == 'int'))  # secure fields have no <<
        if not bits:
            kw['bits'] = False
        if emode == 'none':
            kw['e'] = None
        elif emode != 'def':
            kw['e'] = emode[1]
        return mpc.find(x, a, **kw)
    raise KeyError(kind)


def _run_ops(cfg, ts, ops):
    """Run all ops in one simulated run; returns (result-or-None, per-party lists of opened results)."""
    m = cfg['m']

    async def prog(mpc, pid):
        st_ = _mk_type(mpc, ts)
        outs = []
        for j, op in enumerate(ops):
            sender = (cfg.get('sender', 0) + j) % m
            try:
                r = _call(mpc, pid, ts, st_, op, sender)
            except Exception as exc:  # raised synchronously by the code under test (same at all parties)
                import traceback
                outs.append(['EXC', type(exc).__name__, traceback.format_exc()[-700:]])
                continue
            outs.append(await _open(mpc, ts, r))
        return outs

    sim = simmod.Sim(m, cfg['t'], prss=cfg['prss'], seed=cfg.get('seed', 0),
                     schedule=cfg.get('sched') or {'mode': 'fast'}, sec_param=30)
    try:
        res = sim.run_programs(prog)
    finally:
        sim.close()
    return res


# ------------------------------------------------------------------------------------------ reference
def _tz(v):
    return (v & -v).bit_length() - 1  # v != 0


def _expect(ts, op):
    """-> (checker(got) -> None | message, nontrivial: bool, label)."""
    kind = op[0]
    L = _type_bits(ts)

    def exact(exp, nt, label):
        def chk(got):
            return None if got == exp else f'expected {exp}, got {got}'
        return chk, nt, label

    if kind == 'add_bits':
        _, xb, yb, ymode = op
        n = len(xb)
        X = sum(b << i for i, b in enumerate(xb))
        Y = sum(b << i for i, b in enumerate(yb))
        S = (X + Y) % (1 << n) if n else 0
        carry = any((X % (1 << (i + 1))) + (Y % (1 << (i + 1))) >= (1 << (i + 1)) for i in range(n - 1))
        return exact([_enc(ts, (S >> i) & 1) for i in range(n)], carry, f'add_bits:{ymode}')
    if kind in ('to_bits', 'roundtrip'):
        _, a, l, integral = op
        ll = L if l is None else l
        v = a << ts['f'] if (ts['kind'] == 'fxp' and integral) else a  # scaled integer for fixed point
        if kind == 'to_bits':
            return exact([_enc(ts, (v >> i) & 1) for i in range(ll)], v % (1 << ll) not in (0, 1),
                         'to_bits' + ('' if l is None else ':l'))
        return exact(_enc(ts, v % (1 << ll)), v % (1 << ll) not in (0, 1), 'roundtrip')
    if kind == 'from_bits':
        v = sum(b << i for i, b in enumerate(op[1]))
        return exact(_enc(ts, v) if ts['kind'] != 'fld2' else v, v > 1, 'from_bits')
    if kind == 'tz':
        _, a, l = op
        ll = L if l is None else l
        v = a % (1 << ll)
        upto = ll if v == 0 else _tz(v) + 1

        def chk(got):
            if not isinstance(got, list) or len(got) != ll:
                return f'expected {ll} values, got {got}'
            exp = [(v >> i) & 1 for i in range(upto)]
            return None if got[:upto] == exp else f'expected prefix {exp} (up to and incl. the lowest 1), got {got}'
        return chk, v != 0 and upto > 1, 'tz'
    if kind == 'gcp2':
        _, a, b, l = op
        if a == 0 and b == 0:
            return (lambda got: None if isinstance(got, int) else f'not a number: {got}'), False, 'gcp2:00(no oracle)'
        g = min(_tz(v) for v in (a, b) if v != 0)
        return exact(1 << g, g > 0, 'gcp2')
    if kind == 'uv':
        _, a, n = op
        exp = [0] * n
        exp[a % n] = 1  # a = n: documented [1] + [0]*(n-1)
        return exact([_enc(ts, b) for b in exp], n > 2, 'uv' + (':a=n' if a == n else ''))
    if kind == 'find':
        _, xs, a, aform, bits, emode, fmode = op
        n = len(xs)
        ix = next((i for i, b in enumerate(xs) if b == a), None)
        E = _e_value(emode, n)
        lab = f"find:{'bits' if bits else 'any'}:{aform}:{emode if isinstance(emode, str) else emode[0]}:{fmode}"

        def enc(v):
            return [_enc(ts, c) for c in v] if isinstance(v, list) else _enc(ts, v)
        if emode == 'none':
            if ix is None:
                def chk(got):
                    if not isinstance(got, list) or len(got) != 2 or got[0] != _enc(ts, 1):
                        return f'expected (nf=1, <raw>), got {got}'
                    return None
                return chk, False, lab
            return exact([_enc(ts, 0), enc(_ref_f(fmode, ix, n))], True, lab)
        return exact(enc(_ref_f(fmode, ix if ix is not None else E, n)), ix is not None and n > 1, lab)
    raise KeyError(kind)


def _valid_op(ts, op):
    """Preconditions (documented or caller-observed); generators construct them, replayed data is re-checked."""
    kind = op[0]
    L = _type_bits(ts)
    k = ts['kind']
    lo, hi = (0, ts['p']) if k == 'fld' else (0, 1 << ts['k']) if k == 'fld2' else (-(1 << (L - 1)), 1 << (L - 1))
    if kind == 'add_bits':
        return len(op[1]) == len(op[2]) and k != 'fld2'
    if kind in ('to_bits', 'roundtrip'):
        _, a, l, integral = op
        if k == 'fxp':
            v = a << ts['f'] if integral else a
            if not lo <= v < hi or kind == 'roundtrip':
                return False
        elif not lo <= a < hi:
            return False
        return l is None or 1 <= l <= L
    if kind == 'from_bits':
        return len(op[1]) <= (L if k != 'fld' else L - 1) and k != 'fxp'
    if kind == 'tz':
        return k == 'int' and lo <= op[1] < hi and (op[2] is None or 1 <= op[2] <= L)
    if kind == 'gcp2':
        _, a, b, l = op
        if k != 'int' or not (lo <= a < hi and lo <= b < hi):
            return False
        return l is None or (1 <= l <= L and abs(a) < (1 << l) and abs(b) < (1 << l))
    if kind == 'uv':
        _, a, n = op
        if k == 'fld2' or not (n >= 1 and 0 <= a <= n):
            return False
        if k == 'fxp':
            return n < (1 << (ts['l'] - ts['f'] - 1))
        if k == 'fld':
            return n < ts['p'] // 2 and (n - 1).bit_length() <= L
        return n < hi
    if kind == 'find':
        _, xs, a, aform, bits, emode, fmode = op
        if k == 'fld2' or (k == 'fxp' and (fmode != 'none' or not bits)):
            return False
        if bits and not (a in (0, 1) and all(b in (0, 1) for b in xs)):
            return False
        if not bits:
            if k == 'int' and (L < 3 or not all(-(1 << (L - 2)) <= v < (1 << (L - 2)) for v in xs + [a])):
                return False
            if k == 'fld' and not all(0 <= v < ts['p'] for v in xs + [a]):
                return False
        return _find_valid(xs, fmode, emode)
    return False


# ------------------------------------------------------------------------------------------ exhaustive cells
def _bitvecs(n):
    return [[(v >> i) & 1 for i in range(n)] for v in range(1 << n)]


def _chunks(lo, hi, size):
    return [[a, min(a + size, hi)] for a in range(lo, hi, size)]


def enumerate_cases(tier):
    quick = tier == 'quick'
    # add_bits: all pairs of length n
    for n in range(0, (6 if quick else 8) + 1):
        for ymode in (['sec', 'pub'] if n <= 5 else ['sec'] if n <= 6 or not quick else []):
            for xr in _chunks(0, 1 << n, max(1, 512 >> n)):
                yield {'mode': 'cell', 'cell': ['add', n, xr, ymode]}
    for n in ([7] if not quick else []):
        for xr in _chunks(0, 1 << n, 4):
            yield {'mode': 'cell', 'cell': ['add', n, xr, 'pub']}
    # to_bits / from_bits / round trip / trailing_zeros: every value of SecInt(l), every l' <= l
    for l in range(1, (7 if quick else 8) + 1):
        for ar in _chunks(-(1 << (l - 1)), 1 << (l - 1), 16):
            yield {'mode': 'cell', 'cell': ['bits', l, ar]}
    # gcp2: all pairs
    for l in range(1, (4 if quick else 6) + 1):
        for ar in _chunks(-(1 << (l - 1)), 1 << (l - 1), max(1, 256 >> l)):
            yield {'mode': 'cell', 'cell': ['gcp2', l, None, ar]}
    for l2 in range(1, (3 if quick else 5) + 1):  # SecInt(8) with explicit l: |a|,|b| < 2^l
        for ar in _chunks(-(1 << l2) + 1, 1 << l2, max(1, 128 >> l2)):
            yield {'mode': 'cell', 'cell': ['gcp2', 8, l2, ar]}
    # unit_vector: all 0 <= a <= n
    for n in range(1, (17 if quick else 33) + 1):
        yield {'mode': 'cell', 'cell': ['uv', n]}
    # find, bits mode: all vectors of length n x a x aform x e modes, one cell per (n, f mode[, e mode])
    nmax = 5 if quick else 8
    for n in range(0, nmax + 1):
        for fmode in F_MODES:
            if n <= 5:
                yield {'mode': 'cell', 'cell': ['find', n, fmode, None]}
            else:
                for ei in range(7):
                    yield {'mode': 'cell', 'cell': ['find', n, fmode, ei]}
    # find, bits=False: all vectors over 3 values
    for n in range(0, (3 if quick else 4) + 1):
        for fmode in (['none', 'f_tup', 'cs_pow'] if quick else F_MODES):
            yield {'mode': 'cell', 'cell': ['findany', n, fmode]}
    # other types / wide types: every value of the small ones, structured values of the large ones
    for ts, cost in TYPED_CELLS:
        if quick and cost >= 60:
            continue
        parts = max(1, round(cost / (16 if quick else 5)))  # estimated seconds -> cells of a few seconds
        for part in range(parts):
            yield {'mode': 'cell', 'cell': ['typed', ts, part, parts, quick]}
    # the known-finding classes, in cells of their own
    yield {'mode': 'cell', 'cell': ['find_f11']}
    yield {'mode': 'cell', 'cell': ['find_f30a']}


ANY_VALUES = [-3, 0, 2]
# (type, estimated cost in seconds of the full structured cell: used only to split it into parts)
TYPED_CELLS = ([({'kind': 'fld', 'p': p}, c) for p, c in ((11, 1), (13, 1), (31, 1), (101, 4), (257, 13), (65537, 5),
                                                         (2**31 - 1, 12), (2**61 - 1, 70))] +
               [({'kind': 'fld2', 'k': k}, c) for k, c in ((1, 1), (2, 1), (3, 1), (4, 1), (8, 2), (9, 6), (16, 1),
                                                           (32, 2))] +
               [({'kind': 'fxp', 'l': l, 'f': f}, c) for l, f, c in ([8, 4, 6], [10, 3, 2], [16, 8, 4], [32, 16, 16],
                                                                    [24, 20, 9])] +
               [({'kind': 'int', 'l': l}, c) for l, c in ((16, 8), (32, 30), (64, 200))])


def _structured(lo, hi, count=24, step=1):
    """All of [lo, hi) when small, else extremes, +-2^j, +-2^j +- 1 and pseudo-random values (deterministic)."""
    if hi - lo <= 600:
        return list(range(lo, hi)), True
    vals = {lo, lo + 1, hi - 1, hi - 2, (lo + hi) // 2}
    j = 0
    while (1 << j) < max(hi, -lo):
        for v in ((1 << j) - 1, 1 << j, (1 << j) + 1, 3 << j, 0x5555555555555555 >> j, 0xCCCCCCCCCCCCCCCC >> j):
            vals.update((v, -v))
        j += step
    state = 0x2545F4914F6CDD1D ^ hi
    for _ in range(count):
        state ^= (state << 13) & 0xFFFFFFFFFFFFFFFF
        state ^= state >> 7
        state ^= (state << 17) & 0xFFFFFFFFFFFFFFFF
        vals.add(lo + state % (hi - lo))
    return sorted(v for v in vals if lo <= v < hi), False


def _typed_ops(ts, lite=False):
    k = ts['kind']
    L = _type_bits(ts)
    lo, hi = (0, ts['p']) if k == 'fld' else (0, 1 << ts['k']) if k == 'fld2' else (-(1 << (L - 1)), 1 << (L - 1))
    vals, full = _structured(lo, hi, *((8, 3) if lite else ()))
    ls = sorted({1, 2, max(1, L // 2), max(1, L - 1), L}) if not full else list(range(1, L + 1))
    if lite and not full:
        ls = sorted({max(1, L // 2), max(1, L - 1)})
    ops = []
    for a in vals:
        if k == 'fxp':
            f = ts['f']
            ops.append(['to_bits', a, None, False])
            ops += [['to_bits', a, l, False] for l in ls]
            if a % (1 << f) == 0:  # the integral path (flag set): value a >> f
                ops.append(['to_bits', a >> f, None, True])
                ops += [['to_bits', a >> f, l, True] for l in ls]
        else:
            ops.append(['to_bits', a, None, True])
            ops += [['to_bits', a, l, True] for l in ls]
            if k != 'fld':
                ops += [['roundtrip', a, l, True] for l in ls]
            if k == 'int':
                ops += [['tz', a, l] for l in ls] + [['tz', a, None], ['gcp2', a, 0, None], ['gcp2', a, 6 * a if lo <= 6 * a < hi else a, None]]
    if k != 'fld2':
        for n in (1, 2, 3, 5, 8, 9, 16, 17):
            ops += [['uv', a, n] for a in range(n + 1)]
        for xs in ([], [1], [0, 1], [1, 1, 0, 1, 0], [1] * 9, [0] * 4 + [1] * 5):
            for a in (0, 1):
                for aform in ('int', 'sec'):
                    for fmode in (['none'] if k == 'fxp' else ['none', 'f_tup', 'cs_pow', 'f_list']):
                        for emode in ('def', ['int', -1], 'none'):
                            op = ['find', xs, a, aform, True, emode, fmode]
                            if _find_valid(xs, fmode, emode) and not _is_f11(op):
                                ops.append(op)
            ops.append(['add_bits', xs, [1] * len(xs), 'sec'])
            ops.append(['add_bits', xs, xs[::-1], 'pub'])
    if k != 'fxp':
        for n in range(0, min(L, 20)):
            ops.append(['from_bits', [1] * n])
            ops.append(['from_bits', [(i * i + n) % 2 for i in range(n)]])
    return [op for op in ops if _valid_op(ts, op)], full


def _cell_ops(cell):
    """-> (type spec, ops) of an exhaustive cell (deterministic)."""
    kind = cell[0]
    if kind == 'add':
        _, n, (xlo, xhi), ymode = cell
        vs = _bitvecs(n)
        return {'kind': 'int', 'l': 8}, [['add_bits', vs[x], y, ymode] for x in range(xlo, xhi) for y in vs]
    if kind == 'bits':
        _, l, (alo, ahi) = cell
        ops = []
        for a in range(alo, ahi):
            ops.append(['to_bits', a, None, True])
            for l2 in range(1, l + 1):
                ops.append(['to_bits', a, l2, True])
                ops.append(['roundtrip', a, l2, True])
                ops.append(['tz', a, l2])
            ops.append(['tz', a, None])
        for v in _bitvecs(min(l, 6)) if alo == -(1 << (l - 1)) else []:
            for n in range(len(v) + 1):
                if n == len(v) or v[n:] == [0] * (len(v) - n):
                    ops.append(['from_bits', v[:n]])
        return {'kind': 'int', 'l': l}, ops
    if kind == 'gcp2':
        _, l, l2, (alo, ahi) = cell
        rng = range(-(1 << (l - 1)), 1 << (l - 1)) if l2 is None else range(-(1 << l2) + 1, 1 << l2)
        return {'kind': 'int', 'l': l}, [['gcp2', a, b, l2] for a in range(alo, ahi) for b in rng]
    if kind == 'uv':
        n = cell[1]
        return {'kind': 'int', 'l': 8}, [['uv', a, n] for a in range(n + 1)]
    if kind == 'find':
        _, n, fmode, ei = cell
        ops = []
        for xs in _bitvecs(n):
            for a in (0, 1):
                for aform in ('int', 'sec'):
                    ems = _e_modes(n)
                    for emode in (ems if ei is None else [ems[ei]]):
                        op = ['find', xs, a, aform, True, emode, fmode]
                        if _find_valid(xs, fmode, emode) and not _is_f11(op):
                            ops.append(op)
        return {'kind': 'int', 'l': 8}, ops
    if kind == 'findany':
        _, n, fmode = cell
        ops = []
        vecs = [[]]
        for _ in range(n):
            vecs = [v + [c] for v in vecs for c in ANY_VALUES]
        for xs in vecs:
            for a in ANY_VALUES + [5]:
                for aform in ('int', 'sec'):
                    for emode in ('def', ['int', -1], 'none', ['str', 'len(x)-1']):
                        if _find_valid(xs, fmode, emode):
                            ops.append(['find', xs, a, aform, False, emode, fmode])
        return {'kind': 'int', 'l': 8}, ops
    if kind == 'typed':
        _, ts, part, parts, lite = cell
        return ts, _typed_ops(ts, lite)[0][part::parts]
    if kind == 'find_f11':
        return {'kind': 'int', 'l': 8}, [['find', [], 1, 'int', True, emode, fmode]
                                         for emode in _e_modes(0) for fmode in F_MODES
                                         if _find_valid([], fmode, emode)]
    if kind == 'find_f30a':
        return {'kind': 'int', 'l': 8}, [['find', xs, a, 'int', True, emode, 'both']
                                         for n in (0, 1, 3) for xs in _bitvecs(n) for a in (0, 1)
                                         for emode in ('def', 'none', ['int', -1])
                                         if not (n == 0 and a == 1)]
    raise KeyError(kind)


# ------------------------------------------------------------------------------------------ generated cases
PRIMES = [11, 13, 31, 101, 257, 65537, 2**31 - 1]


@st.composite
def _bits(draw, n):
    cat = draw(st.integers(0, 9))
    if cat == 0:
        return [0] * n
    if cat == 1:
        return [1] * n
    if cat == 2 and n:  # a single 1 / a single 0
        b = draw(st.integers(0, 1))
        v = [b] * n
        v[draw(st.integers(0, n - 1))] = 1 - b
        return v
    if cat == 3:  # alternating: long carry chains with its complement
        return [(i + cat) % 2 for i in range(n)]
    return draw(st.lists(st.integers(0, 1), min_size=n, max_size=n))


@st.composite
def _value(draw, lo, hi):
    """Integer in [lo, hi), extremes / powers of two weighted."""
    cat = draw(st.integers(0, 9))
    if cat == 0:
        return draw(st.sampled_from([lo, hi - 1, max(lo, min(hi - 1, 0)), max(lo, min(hi - 1, 1)), max(lo, -1)]))
    if cat <= 3:  # +-2^j * odd: many trailing zeros
        j = draw(st.integers(0, max(0, (hi - 1).bit_length())))
        v = draw(st.integers(-3, 3)) * (1 << j) + draw(st.sampled_from([0, 0, 0, 1 << j]))
        return max(lo, min(hi - 1, v))
    return draw(st.integers(lo, hi - 1))


@st.composite
def _op(draw, ts, tier):
    k = ts['kind']
    L = _type_bits(ts)
    nmax = 12 if tier == 'quick' else 20
    lo, hi = (0, ts['p']) if k == 'fld' else (0, 1 << ts['k']) if k == 'fld2' else (-(1 << (L - 1)), 1 << (L - 1))
    kinds = {'int': ['add_bits', 'to_bits', 'roundtrip', 'from_bits', 'tz', 'gcp2', 'uv', 'find', 'find', 'find'],
             'fld': ['add_bits', 'to_bits', 'from_bits', 'uv', 'find', 'find'],
             'fld2': ['to_bits', 'roundtrip', 'from_bits'],
             'fxp': ['add_bits', 'to_bits', 'uv', 'find']}[k]
    kind = draw(st.sampled_from(kinds))
    if kind == 'add_bits':
        n = draw(st.integers(0, nmax))
        x = draw(_bits(n))
        y = draw(st.sampled_from(['rand', 'rand', 'compl', 'compl+1']))
        if y == 'rand':
            yb = draw(_bits(n))
        else:  # x + ~x (+1): carry through every position
            yb = [1 - b for b in x]
            if y == 'compl+1' and n:
                Y = (sum(b << i for i, b in enumerate(yb)) + 1) % (1 << n)
                yb = [(Y >> i) & 1 for i in range(n)]
        return ['add_bits', x, yb, draw(st.sampled_from(['sec', 'pub']))]
    if kind in ('to_bits', 'roundtrip'):
        l = draw(st.sampled_from([None, None, L, 1, 2, max(1, L - 1), max(1, L // 2)] + [draw(st.integers(1, L))]))
        if k == 'fxp':
            integral = draw(st.booleans())
            if integral:
                a = draw(_value(-(1 << (L - ts['f'] - 1)), 1 << (L - ts['f'] - 1)))
            else:
                a = draw(_value(lo, hi))
            return [kind, a, l, integral]
        return [kind, draw(_value(lo, hi)), l, True]
    if kind == 'from_bits':
        return ['from_bits', draw(_bits(draw(st.integers(0, min(nmax, L if k != 'fld' else L - 1))))),
                draw(st.booleans())]  # flag: the caller mutates its list right after the call
    if kind == 'tz':
        return ['tz', draw(_value(lo, hi)), draw(st.sampled_from([None, L, 1, max(1, L // 2), draw(st.integers(1, L))]))]
    if kind == 'gcp2':
        l = draw(st.sampled_from([None, None, draw(st.integers(1, L))]))
        lo2, hi2 = (lo, hi) if l is None else (max(lo, -(1 << l) + 1), min(hi, 1 << l))
        a = draw(_value(lo2, hi2))
        b = draw(st.sampled_from([0, a, -a if lo2 <= -a < hi2 else a, draw(_value(lo2, hi2)), draw(_value(lo2, hi2))]))
        if draw(st.booleans()):
            a, b = b, a
        return ['gcp2', a, b, l]
    if kind == 'uv':
        cap = nmax + 13
        if k == 'fxp':
            cap = min(cap, (1 << (ts['l'] - ts['f'] - 1)) - 1)
        elif k == 'fld':
            cap = min(cap, ts['p'] // 2 - 1)
        else:
            cap = min(cap, hi - 1)
        n = draw(st.sampled_from([1, 2, 3, 4, 5, 7, 8, 9, 15, 16, 17, 31, 32, 33] + [draw(st.integers(1, 33))]))
        n = max(1, min(n, cap))
        a = draw(st.sampled_from([0, n - 1, n - 1, n // 2, n, draw(st.integers(0, n - 1)), draw(st.integers(0, n - 1))]))
        return ['uv', a, n]
    # find
    n = draw(st.sampled_from([0, 1, 2, 3, 4, 5, 7, 8, 9, 16, 17] + [draw(st.integers(0, nmax))]))
    n = min(n, nmax)
    bits = k == 'fxp' or (k == 'int' and L < 3) or draw(st.integers(0, 3)) > 0
    aform = draw(st.sampled_from(['int', 'sec']))
    if bits:
        a = draw(st.integers(0, 1))
        where = draw(st.sampled_from(['absent', 'last', 'first', 'rand', 'rand']))
        if where == 'rand':
            xs = draw(_bits(n))
        else:
            xs = [1 - a] * n
            if n and where == 'last':
                xs[-1] = a
            if n and where == 'first':
                xs[draw(st.integers(0, min(1, n - 1)))] = a
    else:
        vlo, vhi = (0, ts['p']) if k == 'fld' else (-(1 << (L - 2)), 1 << (L - 2))
        pool = draw(st.lists(_value(vlo, vhi), min_size=1, max_size=4))
        xs = draw(st.lists(st.sampled_from(pool), min_size=n, max_size=n))
        a = draw(st.sampled_from(pool + [draw(_value(vlo, vhi))]))
    fmode = 'none' if k == 'fxp' else draw(st.sampled_from(F_MODES + ['none', 'none']))
    if draw(st.integers(0, 39)) == 0 and k == 'int':
        fmode = 'both'  # F30a class, kept rare
    ems = [e for e in _e_modes(n) + ['def', 'none', ['int', 1], ['int', n]] if _find_valid(xs, fmode, e)]
    emode = draw(st.sampled_from(ems))
    op = ['find', xs, a, aform, bits, emode, fmode]
    if _is_f11(op) and draw(st.integers(0, 3)) > 0:
        op[3] = 'sec'  # mostly stay outside the F11 class
    return op


@st.composite
def _case(draw, tier):
    m, t, prss = draw(progs.config())
    tk = draw(st.sampled_from(['int', 'int', 'int', 'int', 'fld', 'fld2', 'fxp']))
    if tk == 'int':
        ts = {'kind': 'int', 'l': draw(st.sampled_from([8, 8, 8, 16, 4, 5, 3, 2, 1, 13, 32] +
                                                        ([64] if tier == 'thorough' else [])))}
    elif tk == 'fld':
        ts = {'kind': 'fld', 'p': draw(st.sampled_from(PRIMES))}
    elif tk == 'fld2':
        ts = {'kind': 'fld2', 'k': draw(st.sampled_from([k for k in [1, 2, 3, 8, 9, 16] if 2 ** k > m]))}
    else:
        l, f = draw(st.sampled_from([[8, 4], [16, 8], [16, 4], [32, 16], [10, 0 + 3], [24, 20]]))
        ts = {'kind': 'fxp', 'l': l, 'f': f}
    nops = draw(st.integers(1, 3 if m > 3 else 4))
    ops = [draw(_op(ts, tier)) for _ in range(nops)]
    return {'mode': 'gen', 'm': m, 't': t, 'prss': prss, 'seed': draw(st.integers(0, 2**20)),
            'sender': draw(st.integers(0, m - 1)), 'type': ts, 'ops': ops}


def strategy(tier):
    return _case(tier)


# ------------------------------------------------------------------------------------------ run_case
def run_case(case):
    if case['mode'] == 'cell':
        ts, ops = _cell_ops(case['cell'])
        cfg = dict(m=1, t=0, prss=True, seed=0, sender=0)
        labels = ['cell:' + case['cell'][0]]
    else:
        ts, ops = case['type'], case['ops']
        cfg = case
        labels = [f"m={case['m']}", f"t={case['t']}", f"prss={case['prss']}",
                  'type=' + ts['kind'] + (str(ts.get('l', '')) if ts['kind'] == 'int' else '')]
    valid = [op for op in ops if _valid_op(ts, op)]
    if len(valid) != len(ops):
        labels.append('invalid-op-dropped')
    ops = valid
    if not ops:
        return Outcome(True, skipped=True, nontrivial=False, labels=labels + ['empty'])
    try:
        res = _run_ops(cfg, ts, ops)
    except Exception:
        import traceback
        return Outcome(False, f'exception on valid input: {traceback.format_exc()[-2500:]}\ncase={case}', labels=labels)
    if res.inconclusive:
        return Outcome(True, inconclusive=True, nontrivial=False, labels=labels)
    known_cls = [fid for fid, pred in (('F30a', _is_f30a), ('F11', _is_f11)) if any(pred(op) for op in ops)]
    if not res.all_done:
        # an exception inside a protocol coroutine of the code under test: parties stay pending
        only_known = known_cls[0] if known_cls and all(_is_f11(op) or _is_f30a(op) for op in ops) else None
        return Outcome(False, f'run did not complete: {res.describe()}\n{res.errors[:1]}\ncase={_short(case)}',
                       labels=labels, known=only_known)
    nt = 0
    fails = []
    for j, op in enumerate(ops):
        chk, op_nt, lab = _expect(ts, op)
        if case['mode'] == 'gen':
            labels.append(lab)
        msgs = []
        for pid, v in enumerate(res.values):
            got = v[j]
            if isinstance(got, list) and got and got[0] == 'EXC':
                msgs.append(f'party {pid}: exception on valid input: {got[1]}: {got[2]}')
                break
            msg = chk(got)
            if msg:
                msgs.append(f'party {pid}: {msg}')
                break
        if msgs:
            cls = 'F30a' if _is_f30a(op) else 'F11' if _is_f11(op) else None
            fails.append((cls, f'op {j} {op} on {ts}: {msgs[0]}'))
        elif op_nt:
            nt += 1
    for cls, msg in fails:
        if cls is None:  # a failure outside every known class wins
            return Outcome(False, f'{msg}\ncase={_short(case)}', labels=labels)
    if fails:
        cls, msg = fails[0]
        labels.append(f'known:{cls}')
        return Outcome(False, f'{msg}\ncase={_short(case)}', labels=labels, known=cls)
    if case['mode'] == 'cell':
        # structured values of a large type: enumerated, not exhaustive
        sampled = case['cell'][0] == 'typed' and not _typed_ops(ts, case['cell'][4])[1]
        if sampled:
            labels.append('typed:' + ts['kind'])
        return Outcome(True, labels=labels, n=len(ops), n_nt=nt, exhaustive=not sampled)
    real = case['m'] >= 3 and case['t'] >= 1
    if known_cls:
        labels.append('known-class-now-passing')
    return Outcome(True, labels=labels, nontrivial=bool(nt) and real)


def _short(case):
    s = str(case)
    return s if len(s) < 3000 else s[:3000] + '...'
