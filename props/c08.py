"""C08: results and termination do not depend on the schedule."""
from hypothesis import strategies as st
from vlib import progs
from vlib.runner import Outcome

ID = 'C08'
LEVEL = 'exploration'
RULE = ('generated (m>=2,t,PRSS,l) x integer programs with mid-program awaits (output/gather of earlier '
        'values, sleep(0), barriers, public zero tests, a user-defined @mpc.coroutine) x >=5 schedules '
        'per program (round-robin, serial, starve-style PCT priorities with change points, seeded random '
        'walks, generated stream chunkings); every schedule must reach completion at every party '
        '(quiescence decides a hang) with outputs equal to the reference; non-trivial = program has a '
        'mid-program await and a schedule with a priority change point or random walk; distinct by hash')
ASSUMPTIONS = ['explored schedules are the PCT/random-walk family of DESIGN.md 2.1, not all interleavings',
               'per-party callback FIFO and per-connection byte FIFO are preserved (sound wrt real deployments)']

FIXED = [{'mode': 'rr'}, {'mode': 'serial'}, {'mode': 'fast'}]


TIMEOUT_INCONCLUSIVE = True  # hangs are decided by quiescence in the simulator, not by the wall clock


def budget(tier):
    return dict(shards=16, examples=24 if tier == 'quick' else 250)


@st.composite
def _case(draw, tier):
    m, t, prss = draw(progs.config(min_m=2, max_m=5 if tier == 'quick' else 7))
    l = draw(st.sampled_from([4, 6, 8, 12]))
    nodes = draw(progs.int_program(m, l, max_nodes=8 if tier == 'quick' else 12, heavy=False, awaits=True))
    n = 3 if tier == 'quick' else 6
    scheds = [draw(progs.schedule(m)) for _ in range(n)]
    # always at least one PCT schedule that starves one entity for a long stretch
    ne = m * m
    scheds.append(dict(mode='pct', prio=draw(st.permutations(list(range(ne)))),
                       changes=[[draw(st.integers(0, 400)), draw(st.integers(0, ne - 1))] for _ in range(draw(st.integers(1, 4)))],
                       chunks=draw(st.lists(st.sampled_from([0, 1, 7, 12, 13]), max_size=3))))
    scheds.append(dict(mode='rand', seed=draw(st.integers(0, 2**32)), chunks=[0, 5]))
    # message-wise delivery under a random walk and under priorities: single messages overtaken by others
    scheds.append(dict(mode='rand', seed=draw(st.integers(0, 2**32)), chunks=[-1]))
    scheds.append(dict(mode='pct', prio=draw(st.permutations(list(range(ne)))),
                       changes=[[draw(st.integers(0, 300)), draw(st.integers(0, ne - 1))] for _ in range(draw(st.integers(0, 3)))],
                       chunks=[-1]))
    return dict(m=m, t=t, prss=prss, l=l, seed=draw(st.integers(0, 2**20)), nodes=nodes, scheds=scheds,
                no_barrier=draw(st.sampled_from([False, False, True])))


def strategy(tier):
    return _case(tier)


def run_case(case):
    if not progs.is_valid(case['nodes'], case['l']):
        return Outcome(True, skipped=True, nontrivial=False, labels=['invalid-program'])
    feats = progs.program_features(case['nodes'], case['m'], case['t'])
    labels = [f"m={case['m']}", f"t={case['t']}"] + feats['ops']
    first = None
    runs = 0
    for sched in FIXED + list(case['scheds']):
        c = dict(case, sched=sched)
        sim, res, ref = progs.run_int_case(c)
        runs += 1
        labels.append('sched=' + sched['mode'])
        if res.inconclusive:
            return Outcome(True, inconclusive=True, labels=labels, nontrivial=False, n=runs)
        if not res.all_done:
            known = _known(case, res)
            return Outcome(False, f'schedule {sched}: run did not complete at quiescence: '
                           f'{res.describe()}\ncase={case}', labels=labels, n=runs, known=known)
        for i, v in enumerate(res.values):
            msg = progs.compare(case['nodes'], ref, v['outs'])
            if msg:
                return Outcome(False, f'schedule {sched}: party {i}: {msg}\ncase={case}', labels=labels, n=runs)
        outs = [v['outs'] for v in res.values]
        if first is None:
            first = outs
        elif outs != first and not _has_gcdext(case):
            return Outcome(False, f'outputs differ between schedules: {first} vs {outs} under {sched}',
                           labels=labels, n=runs)
    nt = feats['has_await'] and any(s['mode'] in ('pct', 'rand') for s in case['scheds'])
    return Outcome(True, labels=labels, nontrivial=nt, n=runs)


def _has_gcdext(case):
    return any(nd[0] == 'multi' and nd[1] == 'gcdext' for nd in case['nodes'])


def _known(case, res):
    return None
