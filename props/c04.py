"""C04: secure finite-field arithmetic equals field arithmetic (also serves C11 for field types).

A case = party configuration (m, t, PRSS on/off) x a secure field type (prime / binary / odd-characteristic
extension field, given by an explicit modulus; small prime fields with m >= p and t >= 1 are lifted by mpyc)
x a short list of independent operation records evaluated in ONE run of the in-process m-party simulator.
Secret operands are genuine degree-t sharings dealt by generated senders.  For every result
  * each party's opened value must be an element of the REQUESTED field (same class as F.subfield/F.field, with
    the requested order/characteristic/degree/modulus) and equal to the reference value computed by the
    independent field arithmetic of vlib/lagrange.py (PrimeRef / BinRef / ExtRef on refmath.ExtField);
  * the m own-shares (public mpc.gather) must lie on a polynomial of degree <= t with constant term equal to
    the reference value, embedded in the lifted field for lifted types (independent Lagrange interpolation).
"""
from hypothesis import strategies as st

from vlib.boot import boot
boot(numpy=False)
from vlib import sim as simmod, refmath as R, fields as FL, lagrange as LG, progs  # noqa: E402
from vlib.runner import Outcome  # noqa: E402

ID = 'C04'
LEVEL = 'exploration'
RULE = ('generated (m<=7, t, PRSS on/off) x field (primes 2..2^521-1 incl. signed flag, GF(2^n) n<=16 and n=32/64/128, '
        'GF(p^n) odd p; GF(2),GF(3),GF(5),GF(7) weighted with m>=p, t>=1 so that mpyc lifts them) x 1..8 operation '
        'records (+ - * / ** == != neg, reflected/public-int/public-element/secure-constant operand forms, aliased '
        'operands, & | ^ ~ in characteristic 2 (and the documented 1-bit forms in odd characteristic), to_bits / from_bits / '
        'round trip for prime and binary fields) on secret inputs dealt by generated senders, run in the m-party '
        'simulator; oracle = independent reference field arithmetic for every opened value at every party + type of '
        'the output (requested field) + independent Lagrange interpolation of all m own-shares of every result '
        '(degree <= t, constant term = reference value, in the lifted field for lifted types); non-trivial = t>=1 and '
        'a result that depends on a secret input dealt by a party; distinct by case hash')
ASSUMPTIONS = ['division/negative powers only with non-zero divisor (reciprocal of 0 is undefined and does not terminate)',
               'public integer operands on lifted types are in range(p); public field-element operands only on non-lifted '
               'types; public operands of bitwise operators are not generated (statement speaks of secure elements)',
               'to_bits on signed prime fields only for values <= p//2 (signed and unsigned reading agree)',
               'non-prime fields with m >= order and t >= 1 are refused by mpyc (assert marked TODO): not generated',
               'shares are read after the computation of each value (values are immutable once computed)']
CASE_TIMEOUT = 150

BIG = [2**61 - 1, 2**64 - 59, 2**89 - 1, 2**127 - 1, 2**255 - 19]
BIGGER = [2**521 - 1]
MID = [11, 13, 17, 31, 61, 101, 127, 251, 257, 65521, 65537, 1000003, 2**31 - 1, 4294967311]
EXT = [(3, 2), (3, 2), (3, 3), (3, 4), (3, 5), (5, 2), (5, 3), (7, 2), (7, 3), (11, 2), (13, 2), (23, 2), (251, 2)]
F04A = 'F04a'
F04B = 'F04b'


def budget(tier):
    return dict(shards=16, examples=150 if tier == 'quick' else 3000)


# ------------------------------------------------------------------------------------------- field helpers
def _order(spec):
    return FL.order(spec)


def _nbits(spec):
    return (_order(spec) - 1).bit_length()


def _dec(rf, spec, v):
    """int encoding (base-p digits) -> reference representation."""
    if rf.kind == 'ext':
        return rf.F.red(R.pfrom_int(v, spec['p']))
    return rf.conv(v)


def _enc(rf, spec, e):
    if rf.kind == 'ext':
        return R.pto_int(e, spec['p'])
    return e


def _rpow(rf, a, e):
    """a**e by definition (repeated multiplication; negative e via the inverse)."""
    if e < 0:
        a = rf.inv(a)
        e = -e
    r = rf.one
    while e:
        if e & 1:
            r = rf.mul(r, a)
        a = rf.mul(a, a)
        e >>= 1
    return r


# ------------------------------------------------------------------------------------------- generator
def _elem(q, p):
    return st.one_of(st.integers(0, q - 1),
                     st.sampled_from(sorted({0, 1, q - 1, q // 2, min(2, q - 1), p - 1, min(p, q - 1), max(q - 2, 0)})))


@st.composite
def _operand(draw, spec, m, lifted, forms, nonzero=False, bit=False):
    """[form, ...]: ['s', sender, v] secret input | ['c', v] secure constant F(int) | ['k', v] secure constant
    F(element of the requested field) | ['i', v] public int | ['f', v] public field element."""
    q, p = _order(spec), spec['p']
    form = draw(st.sampled_from(forms))
    if form == 'c' and draw(st.integers(0, 3)) == 0:
        form = 'k'
    prime = 'f' not in spec
    if bit:
        v = draw(st.integers(0, 1))
    else:
        v = draw(_elem(q, p))
    if form == 'i':
        if lifted:
            v %= p  # public ints on lifted types in range(p) only (DESIGN C04 note)
        elif prime and draw(st.integers(0, 1)) == 0 and not bit:
            v += draw(st.sampled_from([-2, -1, -1, 1, 2])) * p  # out-of-range ints are reduced mod p
    elif form in ('s', 'c') and prime and not bit and draw(st.integers(0, 9)) == 0:
        v += draw(st.sampled_from([-1, 1, 3])) * p  # constructor reduces ints mod p
    if nonzero and v % (p if prime else q) == 0:
        v = 1 if prime else draw(st.sampled_from([1, q - 1, min(p, q - 1)]))
    if form == 's':
        return ['s', draw(st.integers(0, m - 1)), v]
    return [form, v]


@st.composite
def _case(draw, tier):
    thorough = tier == 'thorough'
    kind = draw(st.sampled_from(['lift', 'lift', 'lift', 'prime', 'prime', 'bin', 'bin', 'ext', 'ext']))
    signed = False
    how = 'modulus'
    if kind == 'lift':
        p = draw(st.sampled_from([2, 2, 3, 3, 5, 7]))
        m = draw(st.sampled_from([x for x in (3, 3, 4, 5, 5, 6, 7, 7) if x >= p]))
        tmax = (m - 1) // 2
        t = draw(st.sampled_from(sorted({1, tmax, tmax})))
        prss = draw(st.booleans())
        spec = {'p': p}
        signed = draw(st.integers(0, 4)) == 0
    else:
        m, t, prss = draw(progs.config())
        if kind == 'prime':
            pool = [2, 3, 5, 7] + MID + MID + BIG + (BIGGER if thorough else [])
            spec = {'p': draw(st.sampled_from(pool))}
            signed = draw(st.integers(0, 4)) == 0
        elif kind == 'bin':
            if draw(st.integers(0, 5)) == 0:
                n = draw(st.sampled_from([32, 64, 128] if thorough else [32, 64]))
                x = FL.BIN_MODULI[n]
                spec = {'p': 2, 'f': [(x >> i) & 1 for i in range(n + 1)]}
            else:
                n = draw(st.sampled_from([2, 3, 3, 4, 5, 6, 7, 8, 8, 8, 9, 10, 12, 16]))
                spec = {'p': 2, 'f': list(draw(st.sampled_from(FL.some_irreducibles(2, n))))}
        else:
            if draw(st.integers(0, 7)) == 0:
                P = draw(st.sampled_from([8191, 131071, 524287, 2**127 - 1]))  # all = 3 mod 4: x^2+1 irreducible
                spec = {'p': P, 'f': [1, 0, 1]}
            else:
                p, n = draw(st.sampled_from(EXT))
                spec = {'p': p, 'f': list(draw(st.sampled_from(FL.some_irreducibles(p, n))))}
        if 'f' in spec and t > 0 and m >= _order(spec):
            m, t = 3, 1  # non-prime field with m >= q: unsupported configuration (GF(4) only), not generated
    if 'f' not in spec:
        how = draw(st.sampled_from(['modulus', 'order']))
    q, p = _order(spec), spec['p']
    lifted = t > 0 and m >= q
    l = _nbits(spec)
    bits_ok = 'f' not in spec or p == 2          # prime and binary fields
    big = q.bit_length() > 64
    nops = draw(st.integers(1, 6 if not thorough else 8))
    forms2 = ['s', 's', 's', 'c', 'i', 'i'] + ([] if lifted else ['f'])
    ops = []
    menu = ['add', 'sub', 'mul', 'mul', 'div', 'div', 'pow', 'pow', 'neg', 'eq', 'ne', 'refl', 'refl', 'alias']
    if p == 2:
        menu += ['and', 'or', 'xor', 'inv', 'and', 'or', 'xor', 'inv']
    else:
        menu += ['bit1']
    if bits_ok:
        menu += ['tobits', 'frombits', 'rt']
    known_only = lifted and p > 2 and draw(st.integers(0, 19)) == 0
    if known_only:
        # classes of the known findings F04a (to_bits) / F04b (from_bits) on lifted odd prime fields: generated
        # only here, one op per case, so that the main search continues undisturbed
        which = draw(st.sampled_from(['tobits', 'rt', 'frombits']))
        if which == 'frombits':
            k = draw(st.integers(2, l))
            bits = [draw(_operand(spec, m, lifted, ['s', 's', 'c'], bit=True)) for _ in range(k)]
            bits[draw(st.integers(1, k - 1))][-1] = 1
            rec = ['frombits', bits]
        else:
            a = draw(_operand(spec, m, lifted, ['s', 's', 'c']))
            a[-1] %= p
            if signed and a[-1] > p // 2:
                a[-1] = p - a[-1]
            rec = ['tobits', a, None] if which == 'tobits' else ['rt', a]
        return dict(m=m, t=t, prss=prss, seed=draw(st.integers(0, 2**20)), field=spec, signed=signed, how=how,
                    ops=[rec])
    heavy = 0
    for _ in range(nops):
        op = draw(st.sampled_from(menu))
        if big and op in ('eq', 'ne', 'tobits', 'rt'):
            # ~|q| (eq) resp. ~|q| log |q| (to_bits) secure multiplications each: thorough tier only, at most one per
            # case, to_bits only up to 127-bit fields (a 521-bit to_bits costs ~15 s of CPU at m=5)
            if (not thorough or heavy or draw(st.integers(0, 3))
                    or (op in ('tobits', 'rt') and q.bit_length() > 130)):
                op = draw(st.sampled_from(['mul', 'div', 'add', 'pow']))
            else:
                heavy += 1
        if lifted and p > 2 and op in ('tobits', 'rt'):
            op = 'frombits'  # known finding F04a: generated separately (known_only)
        if op in ('add', 'sub', 'mul', 'eq', 'ne'):
            a = draw(_operand(spec, m, lifted, ['s', 's', 's', 'c']))
            b = draw(_operand(spec, m, lifted, forms2))
            ops.append([op, a, b])
        elif op == 'div':
            a = draw(_operand(spec, m, lifted, ['s', 's', 's', 'c']))
            b = draw(_operand(spec, m, lifted, forms2, nonzero=True))
            ops.append([op, a, b])
        elif op == 'refl':
            # reflected forms: public operand on the left
            rop = draw(st.sampled_from(['radd', 'rsub', 'rmul', 'rdiv', 'rdiv']))
            a = draw(_operand(spec, m, lifted, ['i', 'i'] + ([] if lifted else ['f'])))
            b = draw(_operand(spec, m, lifted, ['s', 's', 'c'], nonzero=rop == 'rdiv'))
            ops.append([rop, a, b])
        elif op == 'alias':
            # the same secure object on both sides (mul has an `a is b` branch)
            a = draw(_operand(spec, m, lifted, ['s', 's', 'c'], nonzero=True))
            ops.append([draw(st.sampled_from(['mul_self', 'sub_self', 'eq_self', 'div_self', 'add_self', 'ne_self'])), a])
        elif op == 'neg':
            ops.append(['neg', draw(_operand(spec, m, lifted, ['s', 's', 'c']))])
        elif op == 'pow':
            a = draw(_operand(spec, m, lifted, ['s', 's', 's', 'c']))
            zero = a[-1] % (p if 'f' not in spec else q) == 0
            es = [0, 1, 2, 3, 4, 5, 7, 254, 254, 255, 256, q - 1, q, q - 2, q + 1, 2 * q - 2]
            if not zero:
                es += [-1, -1, -2, -3, -254, -(q - 1), -q]
            kb = draw(st.sampled_from(range(1, 21)))  # exponent with a uniformly drawn bit length
            which = draw(st.sampled_from(['special', 'small', 'bits', 'bits'] + (['bits'] * 4 if l > 12 else [])))
            if which == 'special':
                e = draw(st.sampled_from(es))
            elif which == 'small':
                e = draw(st.integers(0 if zero else -40, 40))
            else:
                e = (1 << (kb - 1)) | draw(st.integers(0, (1 << (kb - 1)) - 1))
            if not zero and draw(st.integers(0, 5)) == 0:
                e = -abs(e)
            if big and abs(e) > 1 << 12:
                e = e % 4096  # each squaring is a secure multiplication
            if zero and e < 0:
                e = -e
            ops.append(['pow', a, e])
        elif op in ('and', 'or', 'xor'):
            a = draw(_operand(spec, m, lifted, ['s', 's', 's', 'c']))
            b = draw(_operand(spec, m, lifted, ['s', 's', 'c']))
            ops.append([op, a, b])
        elif op == 'inv':
            ops.append(['inv', draw(_operand(spec, m, lifted, ['s', 's', 'c']))])
        elif op == 'bit1':
            # odd characteristic: docstrings say "1-bit only": operands are bits
            a = draw(_operand(spec, m, lifted, ['s', 's', 'c'], bit=True))
            b = draw(_operand(spec, m, lifted, ['s', 's', 'c'], bit=True))
            ops.append([draw(st.sampled_from(['and', 'or', 'xor', 'inv'])), a, b])
            if ops[-1][0] == 'inv':
                ops[-1] = ['inv', a]
        elif op in ('tobits', 'rt'):
            a = draw(_operand(spec, m, lifted, ['s', 's', 's', 'c']))
            if 'f' not in spec:
                a[-1] %= p
                if signed and a[-1] > p // 2:
                    a[-1] = p - a[-1]  # signed fields: only values whose signed and unsigned readings agree
            if op == 'tobits':
                ll = draw(st.sampled_from([None, None, l, 1, max(1, l - 1), max(1, l // 2)]))
                ops.append(['tobits', a, ll])
            else:
                ops.append(['rt', a])
        elif op == 'frombits':
            k = draw(st.sampled_from([l, l, max(1, l - 1), 1, draw(st.integers(1, l))]))
            k = min(k, 70)
            bits = [draw(_operand(spec, m, lifted, ['s', 's', 'c'], bit=True)) for _ in range(k)]
            # (F04b, from_bits on lifted odd prime fields, is fixed in /repo: 34ba303 -- generated freely again)
            ops.append(['frombits', bits])
    return dict(m=m, t=t, prss=prss, seed=draw(st.integers(0, 2**20)), field=spec, signed=signed, how=how, ops=ops)


def strategy(tier):
    return _case(tier)


# ------------------------------------------------------------------------------------------- reference
class _Ref:
    def __init__(self, spec):
        self.spec = spec
        self.rf = LG.ref_for(spec)
        self.q = _order(spec)
        self.p = spec['p']
        self.prime = 'f' not in spec
        self.n = _nbits(spec)

    def val(self, operand):
        v = operand[-1]
        if self.prime:
            return v % self.p
        return _dec(self.rf, self.spec, v)

    def enc(self, e):
        return _enc(self.rf, self.spec, e)

    def bitop(self, op, x, y=None):
        """Bitwise operators on the integer representation (characteristic 2) / on bits (odd characteristic)."""
        ex, ey = self.enc(x), (self.enc(y) if y is not None else None)
        if self.p == 2:
            full = self.q - 1  # all-ones representation
            r = {'and': lambda: ex & ey, 'or': lambda: ex | ey, 'xor': lambda: ex ^ ey, 'inv': lambda: ex ^ full}[op]()
        else:
            r = {'and': lambda: ex & ey, 'or': lambda: ex | ey, 'xor': lambda: ex ^ ey, 'inv': lambda: 1 - ex}[op]()
        return _dec(self.rf, self.spec, r)

    def expected(self, rec):
        """Reference result: an encoded int, or a list of encoded ints (to_bits)."""
        rf = self.rf
        op = rec[0]
        one, zero = rf.one, rf.zero
        b2e = lambda c: self.enc(one if c else zero)  # noqa: E731
        if op in ('add', 'radd'):
            return self.enc(rf.add(self.val(rec[1]), self.val(rec[2])))
        if op in ('sub', 'rsub'):
            return self.enc(rf.sub(self.val(rec[1]), self.val(rec[2])))
        if op in ('mul', 'rmul'):
            return self.enc(rf.mul(self.val(rec[1]), self.val(rec[2])))
        if op in ('div', 'rdiv'):
            return self.enc(rf.mul(self.val(rec[1]), rf.inv(self.val(rec[2]))))
        if op == 'eq':
            return b2e(self.val(rec[1]) == self.val(rec[2]))
        if op == 'ne':
            return b2e(self.val(rec[1]) != self.val(rec[2]))
        if op == 'neg':
            return self.enc(rf.sub(zero, self.val(rec[1])))
        if op == 'pow':
            return self.enc(_rpow(rf, self.val(rec[1]), rec[2]))
        if op.endswith('_self'):
            a = self.val(rec[1])
            o = op[:-5]
            if o == 'mul':
                return self.enc(rf.mul(a, a))
            if o == 'add':
                return self.enc(rf.add(a, a))
            if o == 'sub':
                return self.enc(zero)
            if o == 'div':
                return self.enc(one)
            return b2e(o == 'eq')
        if op in ('and', 'or', 'xor'):
            return self.enc(self.bitop(op, self.val(rec[1]), self.val(rec[2])))
        if op == 'inv':
            return self.enc(self.bitop('inv', self.val(rec[1])))
        if op == 'tobits':
            l = rec[2] if rec[2] is not None else self.n
            v = self.enc(self.val(rec[1]))
            return [b2e((v >> i) & 1) for i in range(l)]
        if op == 'rt':
            return self.enc(self.val(rec[1]))
        if op == 'frombits':
            s = 0
            for i, b in enumerate(rec[1]):
                s += (b[-1] & 1) << i
            if self.prime:
                return s % self.p
            return self.enc(_dec(rf, self.spec, s))  # len(bits) <= n: no reduction involved
        raise ValueError(op)


def _operands(rec):
    op = rec[0]
    if op == 'frombits':
        return list(rec[1])
    return [x for x in rec[1:] if isinstance(x, list)]


def _known_class(case, rec):
    """Class predicates of the known findings F04a / F04b (bit (de)composition on lifted odd prime fields)."""
    spec = case['field']
    lifted = case['t'] > 0 and case['m'] >= _order(spec)
    if not (lifted and 'f' not in spec and spec['p'] > 2):
        return None
    if rec[0] in ('tobits', 'rt'):
        return F04A
    if rec[0] == 'frombits' and any(b[-1] & 1 for b in rec[1][1:]):
        return F04B
    return None


# ------------------------------------------------------------------------------------------- secure side
def _poly_coeffs(poly, p):
    """Coefficient list (low first) of a gfpx polynomial from its raw representation."""
    v = poly.value
    if isinstance(v, int):
        return [(v >> i) & 1 for i in range(v.bit_length())]
    return [int(c) % p for c in v]


def _elem_enc(e, p):
    """mpyc field element -> int encoding (base-p digits) from its raw representation."""
    v = e.value
    if isinstance(v, int):
        return v % p if p else v
    pv = v.value
    if isinstance(pv, int):
        return pv
    r = 0
    for c in reversed(list(pv)):
        r = r * p + int(c)
    return r


def _make_prog(case, ops):
    from mpyc import gfpx
    spec, m = case['field'], case['m']
    p = spec['p']

    async def prog(mpc, pid):
        if 'f' in spec:
            F = mpc.SecFld(modulus=gfpx.GFpX(p)(list(spec['f'])))
        elif case['how'] == 'order':
            F = mpc.SecFld(order=p, signed=case['signed'])
        else:
            F = mpc.SecFld(modulus=p, signed=case['signed'])
        req = F.subfield if F.subfield is not None else F.field
        info = dict(name=F.__name__, lifted=F.subfield is not None, order=req.order, char=req.characteristic,
                    deg=req.ext_deg, signed=req.is_signed, share_order=F.field.order, bit_length=F.bit_length,
                    modulus=(req.modulus if isinstance(req.modulus, int) else _poly_coeffs(req.modulus, p)),
                    share_modulus=(F.field.modulus if isinstance(F.field.modulus, int)
                                   else _poly_coeffs(F.field.modulus, p)))
        # all secret operands: one input call per sender
        by_sender = {}
        for k, rec in enumerate(ops):
            for j, a in enumerate(_operands(rec)):
                if a[0] == 's':
                    by_sender.setdefault(a[1], []).append((k, j, a[2]))
        sec = {}
        for s in sorted(by_sender):
            xs = mpc.input([F(v if pid == s else None) for _, _, v in by_sender[s]], senders=s)
            for (k, j, _), x in zip(by_sender[s], xs):
                sec[k, j] = x

        def get(k, j, a):
            if a[0] == 's':
                return sec[k, j]
            if a[0] == 'c':
                return F(a[1])
            if a[0] == 'k':
                return F(req(a[1]))
            if a[0] == 'i':
                return a[1]
            return F.field(a[1])  # public field element (non-lifted types only)

        results = []
        for k, rec in enumerate(ops):
            op = rec[0]
            args = [get(k, j, a) for j, a in enumerate(_operands(rec))]
            try:
                if op in ('add', 'radd'):
                    c = args[0] + args[1]
                elif op in ('sub', 'rsub'):
                    c = args[0] - args[1]
                elif op in ('mul', 'rmul'):
                    c = args[0] * args[1]
                elif op in ('div', 'rdiv'):
                    c = args[0] / args[1]
                elif op == 'eq':
                    c = args[0] == args[1]
                elif op == 'ne':
                    c = args[0] != args[1]
                elif op == 'neg':
                    c = -args[0]
                elif op == 'pow':
                    c = args[0] ** rec[2]
                elif op == 'mul_self':
                    c = args[0] * args[0]
                elif op == 'add_self':
                    c = args[0] + args[0]
                elif op == 'sub_self':
                    c = args[0] - args[0]
                elif op == 'div_self':
                    c = args[0] / args[0]
                elif op == 'eq_self':
                    c = args[0] == args[0]
                elif op == 'ne_self':
                    c = args[0] != args[0]
                elif op == 'and':
                    c = args[0] & args[1]
                elif op == 'or':
                    c = args[0] | args[1]
                elif op == 'xor':
                    c = args[0] ^ args[1]
                elif op == 'inv':
                    c = ~args[0]
                elif op == 'tobits':
                    c = mpc.to_bits(args[0]) if rec[2] is None else mpc.to_bits(args[0], rec[2])
                elif op == 'rt':
                    c = mpc.from_bits(mpc.to_bits(args[0]))
                elif op == 'frombits':
                    c = mpc.from_bits(args)
                else:
                    raise ValueError(op)
                if isinstance(c, list):
                    bad = [type(x).__name__ for x in c if not isinstance(x, F)]
                else:
                    bad = [] if isinstance(c, F) else [type(c).__name__]
                results.append(('bad-type', bad) if bad else ('ok', c))
            except Exception as exc:  # behaviour of the code under test: reported by the oracle
                results.append(('exc', f'{type(exc).__name__}: {exc}'))
        flat = []
        for st_, c in results:
            if st_ == 'ok':
                flat.extend(c if isinstance(c, list) else [c])
        shares = await mpc.gather(flat) if flat else []
        outs = await mpc.output(flat) if flat else []
        sh = [(type(x) is F.field, _elem_enc(x, p)) for x in shares]
        ou = [(type(o) is req, type(o).__name__, _elem_enc(o, p)) for o in outs]
        status = []
        pos = 0
        for st_, c in results:
            if st_ != 'ok':
                status.append([st_, c])
            elif isinstance(c, list):
                status.append(['list', pos, len(c)])
                pos += len(c)
            else:
                status.append(['one', pos])
                pos += 1
        return dict(info=info, status=status, shares=sh, outs=ou)

    return prog


def _run(case, ops):
    sim = simmod.Sim(case['m'], case['t'], prss=case['prss'], seed=case['seed'], schedule={'mode': 'fast'},
                     sec_param=30)
    try:
        res = sim.run_programs(_make_prog(case, ops))
    finally:
        sim.close()
    return res


def _share_field(case, info):
    """Reference field in which the shares live (the lifted field for lifted types); None + message if invalid."""
    spec = case['field']
    p = spec['p']
    if not info['lifted']:
        return spec, None
    f = info['share_modulus']
    if not isinstance(f, list) or len(f) < 3 or f[-1] != 1:
        return None, f'lifted type shares over modulus {f}: not a monic polynomial of degree >= 2'
    e = len(f) - 1
    if p ** e <= case['m']:
        return None, f'lifted field GF({p}^{e}) has no more than m={case["m"]} elements'
    if not R.is_irreducible_bf(tuple(f), p):
        return None, f'lifted modulus {f} over GF({p}) is reducible'
    return {'p': p, 'f': f}, None


def _check(case, ops, res, labels):
    """Compare one completed run with the reference; returns (message or None, number of checked values)."""
    spec, m, t = case['field'], case['m'], case['t']
    p, q = spec['p'], _order(spec)
    ref = _Ref(spec)
    v0 = res.values[0]
    info = v0['info']
    for i, v in enumerate(res.values):
        if v['info'] != info or v['status'] != v0['status']:
            return f'parties 0 and {i} disagree on type/status: {info} {v0["status"]} vs {v["info"]} {v["status"]}', 0
    lifted = t > 0 and m >= q
    want_mod = p if 'f' not in spec else list(spec['f'])
    if (info['order'], info['char'], info['deg']) != (q, p, len(spec.get('f', [0, 1])) - 1) or info['modulus'] != want_mod:
        return f'secure type is over a different field than requested: {info}', 0
    if info['lifted'] != lifted:
        return f'lifted={info["lifted"]} but t={t}, m={m}, q={q}', 0
    if info['signed'] != bool(case['signed']):
        return f'signed flag {info["signed"]} != requested {case["signed"]}', 0
    if info['bit_length'] != (q - 1).bit_length():
        return f'bit_length {info["bit_length"]} for a field of order {q}', 0
    sspec, msg = _share_field(case, info)
    if msg:
        return msg, 0
    if not lifted and info['share_modulus'] != want_mod:
        return f'shares live in a different field: {info}', 0
    if t > 0:
        rf, xs, B = LG.party_basis(sspec, m)
    else:
        rf, B = LG.ref_for(sspec), None  # t = 0: degree <= 0 means every share equals the value (m may exceed q)
    checked = 0
    for k, rec in enumerate(ops):
        stt = v0['status'][k]
        if stt[0] == 'exc':
            return f'op {k} {rec}: exception on valid input: {stt[1]}', checked
        if stt[0] == 'bad-type':
            return f'op {k} {rec}: result is not of the secure field type: {stt[1]}', checked
        want = ref.expected(rec)
        if stt[0] == 'list':
            if not isinstance(want, list) or len(want) != stt[2]:
                return f'op {k} {rec}: {stt[2]} results, expected {want}', checked
            idxs = list(range(stt[1], stt[1] + stt[2]))
            wants = want
        else:
            if isinstance(want, list):
                return f'op {k} {rec}: single result, expected a list {want}', checked
            idxs, wants = [stt[1]], [want]
        for idx, w in zip(idxs, wants):
            for i, v in enumerate(res.values):
                is_req, tname, got = v['outs'][idx]
                if not is_req:
                    return (f'op {k} {rec}: party {i} output is of type {tname}, not the requested field '
                            f'{info["name"]}'), checked
                if got != w:
                    return f'op {k} {rec}: party {i} opened {got}, reference {w} (int encodings)', checked
            # C11 for field types: all m own-shares on one polynomial of degree <= t through the value
            ys = []
            for i, v in enumerate(res.values):
                in_field, s = v['shares'][idx]
                if not in_field:
                    return f'op {k} {rec}: share of party {i} is not an element of the sharing field', checked
                ys.append(_dec(rf, sspec, s) if rf.kind == 'ext' else rf.conv(s))
            if t == 0:
                c = [ys[0]]
                deg = 0 if all(y == ys[0] for y in ys) else 1
            else:
                c = LG.coeffs(rf, B, ys)
                deg = LG.degree(rf, c)
            if deg > t:
                return f'op {k} {rec}: own-shares lie on a polynomial of degree {deg} > t={t} (shares {ys})', checked
            const = c[0]
            emb = _dec(rf, sspec, w) if rf.kind == 'ext' else rf.conv(w)  # w < p for lifted types: constant polynomial
            if const != emb:
                return f'op {k} {rec}: sharing has constant term {const}, reference value {emb}', checked
            checked += 1
    return None, checked


def _run_and_check(case, ops, labels):
    """(failing Outcome or None, number of checked values)"""
    try:
        res = _run(case, ops)
    except Exception:
        import traceback
        return Outcome(False, f'exception on valid input: {traceback.format_exc()[-2500:]}\ncase={case}', labels=labels), 0
    if res.inconclusive:
        return Outcome(True, inconclusive=True, labels=labels, nontrivial=False), 0
    if not res.all_done:
        errs = '\n'.join(e[-1200:] for _, e in res.errors[:2])
        return Outcome(False, f'run did not complete: {res.describe()}\n{errs}\ncase={case}', labels=labels), 0
    msg, n = _check(case, ops, res, labels)
    if msg:
        return Outcome(False, f'{msg}\ncase={case}', labels=labels), n
    return None, n


def run_case(case):
    spec, m, t = case['field'], case['m'], case['t']
    q, p = _order(spec), spec['p']
    lifted = t > 0 and m >= q
    kind = 'prime' if 'f' not in spec else ('binary' if p == 2 else 'ext')
    labels = [f'm={m}', f't={t}', f"prss={case['prss']}", f'kind={kind}', 'lifted' if lifted else 'not-lifted',
              f'bits<={8 * ((q.bit_length() + 7) // 8)}' if q.bit_length() <= 16 else
              ('bits<=64' if q.bit_length() <= 64 else 'bits>64')]
    if case.get('signed'):
        labels.append('signed')
    if 'f' in spec and lifted:
        return Outcome(True, skipped=True, nontrivial=False, labels=['unsupported-nonprime-small'])
    ops = [rec for rec in case['ops'] if _known_class(case, rec) is None]
    for rec in case['ops']:
        labels.append('op=' + rec[0])
        forms = sorted({a[0] for a in _operands(rec)})
        labels.extend(f'form={f}' for f in forms)
    n = 0
    if ops:
        out, n = _run_and_check(case, ops, labels)
        if out is not None:
            return out
    for rec in case['ops']:
        cls = _known_class(case, rec)
        if cls is None:
            continue
        labels.append(cls + '-class')
        out, n2 = _run_and_check(case, [rec], labels)
        n += n2
        if out is not None:
            if out.inconclusive:
                return out
            sig = {F04A: 'TypeError: Binary field or prime field required', F04B: 'in out_conv'}[cls]
            hit = 'run did not complete' in out.detail and sig in out.detail
            if cls == F04B:
                # sum b_i X^i: outside the base field (out_conv asserts) or, when X^i reduces to a constant modulo
                # the lifting polynomial, silently a wrong base-field value
                hit = (hit and 'AssertionError' in out.detail) or ': party ' in out.detail or 'constant term' in out.detail
            if hit:
                what = {F04A: 'to_bits on a lifted prime field raises TypeError (Binary field or prime field required)',
                        F04B: 'from_bits on a lifted odd prime field combines the bits with powers of X instead of '
                              'powers of 2: result outside the base field (output conversion asserts) or a '
                              'wrong base-field value'}[cls]
                return Outcome(False, f'{what}: GF({p}), m={m}, t={t}, op {rec}\n{out.detail[:1500]}', labels=labels,
                               known=cls)
            return out
    secret = any(a[0] == 's' for rec in case['ops'] for a in _operands(rec))
    if n:
        # C11 for field types: every one of the n checked values had all m own-shares interpolated
        labels.append('c11-shares-interpolated' + ('' if t >= 1 else '-t=0'))
        if lifted:
            labels.append('c11-shares-interpolated-lifted-field')
    return Outcome(True, labels=labels, nontrivial=t >= 1 and secret, n=max(n, 1))
