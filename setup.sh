#!/bin/bash
# Offline, idempotent: third-party pieces the checks need beyond what /venv has.
cd "$(dirname "$0")" || exit 2
PY=/venv/bin/python
[ -x "$PY" ] || PY=python3
WH=/opt/veriftools/wheels
mkdir -p .deps evidence replays
need=""
"$PY" -c "import hypothesis" 2>/dev/null || need="$need hypothesis"
PYTHONPATH=.deps "$PY" -c "import numpy" 2>/dev/null || need="$need numpy"
if [ -n "$need" ]; then
  PIP_NO_INDEX=1 "$PY" -m pip install --quiet --no-index --find-links "$WH" --target .deps $need || exit 2
fi
PYTHONPATH=.deps "$PY" -c "import hypothesis, numpy" || exit 2
touch .deps/.ok
echo "setup ok"
